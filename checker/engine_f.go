package main

import (
	"os"
	"fmt"
	"go/token"
	"go/types"
	"strings"

	"golang.org/x/tools/go/ssa"
)

// Engine F — untrusted sizes and indices (DESIGN.md §3 F): F1 index guard (incl. F1b length-relative), F2 fixed-buffer
// copy, F3 two-sided slice (incl. F3b), F4 parse results only on the success branch.

func init() {
	registerEngine("F", []string{"F1", "F2", "F3", "F4", "F5", "F6"}, runEngineF)
}

func runEngineF(p *Prog, o *obls) {
	for _, fn := range p.Funcs {
		fF1F3(p, o, fn)
		fF2(p, o, fn)
		fF4(p, o, fn)
		fF5(p, o, fn)
		fF6(p, o, fn)
	}
}

// pureKey renders a side-effect-free expression canonically, so that two evaluations of the same expression (go/ssa
// has no CSE) compare equal. Values that are not pure expressions get a unique key.
func (p *Prog) pureKey(v ssa.Value) string {
	return p.pureKeyD(v, 0)
}

func (p *Prog) pureKeyD(v ssa.Value, d int) string {
	if v == nil {
		return "nil"
	}
	if d > 12 {
		return fmt.Sprintf("deep@%p", v)
	}
	if s, ok := p.keySubst[v]; ok && s != v {
		return p.pureKeyD(s, d+1)
	}
	v = p.origin(v)
	if s, ok := p.keySubst[v]; ok && s != v {
		return p.pureKeyD(s, d+1)
	}
	switch x := v.(type) {
	case *ssa.Parameter:
		return "param:" + x.Name() + "@" + x.Parent().Name()
	case *ssa.Const:
		if x.Value == nil {
			return "nil"
		}
		return "const:" + x.Value.ExactString()
	case *ssa.Global:
		return "global:" + x.Name()
	case *ssa.FieldAddr:
		fv := fieldOfAddr(x)
		n := "?"
		if fv != nil {
			n = fv.Name()
		}
		return p.pureKeyD(x.X, d+1) + "." + n
	case *ssa.Field:
		fv := fieldOfVal(x)
		n := "?"
		if fv != nil {
			n = fv.Name()
		}
		return p.pureKeyD(x.X, d+1) + "." + n
	case *ssa.IndexAddr:
		return p.pureKeyD(x.X, d+1) + "[" + p.pureKeyD(x.Index, d+1) + "]"
	case *ssa.UnOp:
		if x.Op == token.MUL {
			return "*(" + p.pureKeyD(x.X, d+1) + ")"
		}
		return x.Op.String() + "(" + p.pureKeyD(x.X, d+1) + ")"
	case *ssa.BinOp:
		return "(" + p.pureKeyD(x.X, d+1) + x.Op.String() + p.pureKeyD(x.Y, d+1) + ")"
	case *ssa.Convert:
		return p.pureKeyD(x.X, d+1)
	case *ssa.ChangeType:
		return p.pureKeyD(x.X, d+1)
	case *ssa.Call:
		if b := builtinName(&x.Call); b == "len" || b == "cap" {
			return b + "(" + p.pureKeyD(x.Call.Args[0], d+1) + ")"
		}
	case *ssa.Slice:
		return p.pureKeyD(x.X, d+1) + "[" + p.pureKeyD(x.Low, d+1) + ":" + p.pureKeyD(x.High, d+1) + "]"
	case *ssa.Extract:
		return fmt.Sprintf("%s#%d", p.pureKeyD(x.Tuple, d+1), x.Index)
	}
	switch x := v.(type) {
	case *ssa.Phi:
		return fmt.Sprintf("φ%s@%p", x.Comment, v)
	case *ssa.Alloc:
		return fmt.Sprintf("%s@%p", x.Comment, v)
	case *ssa.Call:
		if sc := x.Call.StaticCallee(); sc != nil {
			return fmt.Sprintf("%s()@%p", sc.Name(), v)
		}
		if x.Call.IsInvoke() {
			return fmt.Sprintf("%s()@%p", x.Call.Method.Name(), v)
		}
	case *ssa.TypeAssert:
		return fmt.Sprintf("(%s).(T)@%p", p.pureKeyD(x.X, d+1), v)
	case *ssa.MakeSlice:
		return fmt.Sprintf("make@%p", v)
	}
	return fmt.Sprintf("%T@%p", v, v)
}

// mentions reports whether expression e contains (through arithmetic and conversions) a sub-expression satisfying pred.
func (p *Prog) mentions(e ssa.Value, pred func(ssa.Value) bool) bool {
	seen := map[ssa.Value]bool{}
	var walk func(v ssa.Value, d int) bool
	walk = func(v ssa.Value, d int) bool {
		if v == nil || seen[v] || d > 12 {
			return false
		}
		seen[v] = true
		if pred(v) {
			return true
		}
		v0 := p.origin(v)
		if v0 != v && walk(v0, d+1) {
			return true
		}
		switch x := v0.(type) {
		case *ssa.BinOp:
			return walk(x.X, d+1) || walk(x.Y, d+1)
		case *ssa.Convert:
			return walk(x.X, d+1)
		case *ssa.UnOp:
			if x.Op != token.MUL {
				return walk(x.X, d+1)
			}
		case *ssa.Call:
			if b := builtinName(&x.Call); b == "min" || b == "max" {
				for _, a := range x.Call.Args {
					if walk(a, d+1) {
						return true
					}
				}
			}
		}
		return false
	}
	return walk(e, 0)
}

func isComparison(op token.Token) bool {
	switch op {
	case token.LSS, token.LEQ, token.GTR, token.GEQ, token.EQL, token.NEQ:
		return true
	}
	return false
}

// guardedBy reports whether some branch condition that dominates instruction `at` (either polarity) compares an
// expression mentioning a with one mentioning b. Loop-header conditions count on the body side.
func (p *Prog) guardedBy(at ssa.Instruction, a, b func(ssa.Value) bool) (bool, string) {
	witness := ""
	for _, class := range p.factsAt(at.Block()) {
		found := false
		for _, f := range class {
			bo, ok := f.cond.(*ssa.BinOp)
			if !ok || !isComparison(bo.Op) {
				continue
			}
			if (p.mentions(bo.X, a) && p.mentions(bo.Y, b)) || (p.mentions(bo.X, b) && p.mentions(bo.Y, a)) {
				found = true
				if witness == "" {
					witness = fmt.Sprintf("%s at %s", valueString(bo), p.instrPosV(bo))
				}
				break
			}
		}
		if !found {
			return false, ""
		}
	}
	return witness != "", witness
}

// lowerGuarded: on every path class reaching `at` some fact bounds an expression satisfying isE from below by at least
// need — e > G (G ≥ need-1), e >= G (G ≥ need), e != 0 / !(e == 0) for need 1, the negations of e < G / e <= G — or
// compares it with a run-time quantity.
func (p *Prog) lowerGuarded(at ssa.Instruction, isE func(ssa.Value) bool, need int64) (bool, string) {
	witness := ""
	for _, class := range p.factsAt(at.Block()) {
		found := false
		for _, f := range class {
			bo, ok := f.cond.(*ssa.BinOp)
			if !ok || !isComparison(bo.Op) {
				continue
			}
			x, y, op := bo.X, bo.Y, bo.Op
			if !p.mentions(x, isE) && !p.mentions(y, isE) {
				continue
			}
			if _, isC := p.constInClass(x, class, 0); isC {
				x, y = y, x
				switch op {
				case token.LSS:
					op = token.GTR
				case token.LEQ:
					op = token.GEQ
				case token.GTR:
					op = token.LSS
				case token.GEQ:
					op = token.LEQ
				}
			}
			G, isC := p.constInClass(y, class, 0)
			okb := false
			if !isC {
				okb = true // symbolic relation
			} else if isE(p.origin(x)) || isE(x) {
				switch {
				case op == token.GTR && f.truth:
					okb = G >= need-1
				case op == token.GEQ && f.truth:
					okb = G >= need
				case op == token.LSS && !f.truth:
					okb = G >= need
				case op == token.LEQ && !f.truth:
					okb = G >= need-1
				case op == token.NEQ && f.truth, op == token.EQL && !f.truth:
					okb = G == 0 && need <= 1
				case op == token.EQL && f.truth:
					okb = G >= need
				}
			} else {
				okb = true // the length occurs inside a larger expression compared with a constant: accepted
			}
			if okb {
				found = true
				if witness == "" {
					witness = fmt.Sprintf("%s at %s", valueString(bo), p.instrPosV(bo))
				}
				break
			}
		}
		if !found {
			return false, ""
		}
	}
	return witness != "", witness
}

// upperBound: the largest value of an expression satisfying isE that the facts of one path class admit, from
// comparisons with constants (e > G false → ≤ G, e >= G false → ≤ G-1, e <= G true → ≤ G, e < G true → ≤ G-1).
func (p *Prog) upperBoundInClass(class []condFact, isE func(ssa.Value) bool) (int64, bool, *ssa.BinOp) {
	best, have := int64(0), false
	var w *ssa.BinOp
	for _, f := range class {
		bo, ok := f.cond.(*ssa.BinOp)
		if !ok {
			continue
		}
		x, y, op := bo.X, bo.Y, bo.Op
		if _, isC := p.constInClass(x, class, 0); isC {
			// const OP e  →  e OP' const
			x, y = y, x
			switch op {
			case token.LSS:
				op = token.GTR
			case token.LEQ:
				op = token.GEQ
			case token.GTR:
				op = token.LSS
			case token.GEQ:
				op = token.LEQ
			}
		}
		G, isC := p.constInClass(y, class, 0)
		if !isC || !isE(p.origin(x)) && !isE(x) {
			continue
		}
		var ub int64
		okb := true
		switch {
		case op == token.GTR && !f.truth:
			ub = G
		case op == token.GEQ && !f.truth:
			ub = G - 1
		case op == token.LEQ && f.truth:
			ub = G
		case op == token.LSS && f.truth:
			ub = G - 1
		case op == token.EQL && f.truth:
			ub = G
		default:
			okb = false
		}
		if okb && (!have || ub < best) {
			best, have, w = ub, true, bo
		}
	}
	return best, have, w
}

// exprLeaves returns the non-constant leaves of an arithmetic expression (i-1 → i).
func exprLeaves(p *Prog, v ssa.Value) []ssa.Value {
	var out []ssa.Value
	var walk func(v ssa.Value, d int)
	walk = func(v ssa.Value, d int) {
		if d > 8 {
			return
		}
		switch x := v.(type) {
		case *ssa.BinOp:
			walk(x.X, d+1)
			walk(x.Y, d+1)
		case *ssa.Convert:
			walk(x.X, d+1)
		case *ssa.Const:
		default:
			out = append(out, v)
		}
	}
	walk(v, 0)
	return out
}

func isLenOf(p *Prog, v ssa.Value, baseKey string) bool {
	c, ok := v.(*ssa.Call)
	if !ok {
		return false
	}
	if b := builtinName(&c.Call); b != "len" && b != "cap" {
		return false
	}
	return p.pureKey(c.Call.Args[0]) == baseKey
}

func fromPkg(t types.Type, paths ...string) bool {
	n := namedOf(t)
	if n == nil || n.Obj().Pkg() == nil {
		return false
	}
	for _, pp := range paths {
		if n.Obj().Pkg().Path() == pp {
			return true
		}
	}
	return false
}

const rtcpPath, rtpPath = "github.com/pion/rtcp", "github.com/pion/rtp"

// parsedRoot: v denotes (a pointer to) a pion/rtcp or pion/rtp value that came from outside this function's own
// state — a parameter, a type assertion from rtcp.Packet, a parse result, an element of a packet-derived slice —
// as opposed to a packet the code is building itself (a local, or a field of one of the repository's structs).
func parsedRoot(p *Prog, v ssa.Value, d int) bool {
	if d > 12 {
		return false
	}
	v = p.origin(v)
	switch x := v.(type) {
	case *ssa.Parameter:
		return fromPkg(x.Type(), rtcpPath, rtpPath)
	case *ssa.TypeAssert:
		return fromPkg(x.AssertedType, rtcpPath, rtpPath) || fromPkg(x.Type(), rtcpPath, rtpPath)
	case *ssa.Extract:
		if ta, ok := x.Tuple.(*ssa.TypeAssert); ok {
			return fromPkg(ta.AssertedType, rtcpPath, rtpPath)
		}
		return fromPkg(x.Type(), rtcpPath, rtpPath)
	case *ssa.Call:
		return fromPkg(x.Type(), rtcpPath, rtpPath)
	case *ssa.Phi:
		for _, e := range x.Edges {
			if parsedRoot(p, e, d+1) {
				return true
			}
		}
	case *ssa.UnOp:
		if x.Op == token.MUL {
			switch a := x.X.(type) {
			case *ssa.IndexAddr:
				u, _ := untrustedSlice(p, a.X)
				return u
			case *ssa.FieldAddr:
				return fromPkg(a.X.Type(), rtcpPath, rtpPath) && parsedRoot(p, a.X, d+1)
			}
		}
	case *ssa.FieldAddr:
		return fromPkg(x.X.Type(), rtcpPath, rtpPath) && parsedRoot(p, x.X, d+1)
	case *ssa.Field:
		return fromPkg(x.X.Type(), rtcpPath, rtpPath) && parsedRoot(p, x.X, d+1)
	case *ssa.IndexAddr:
		u, _ := untrustedSlice(p, x.X)
		return u
	}
	return false
}

// untrustedSlice: the slice's contents/length come from a received packet — it is a field of a parsed pion/rtcp or
// pion/rtp value, a parameter whose elements are pion/rtcp types, or a byte-slice parameter of a per-packet entry point.
func untrustedSlice(p *Prog, base ssa.Value) (bool, string) {
	return untrustedSliceS(p, base, map[ssa.Value]bool{})
}

func untrustedSliceS(p *Prog, base ssa.Value, seen map[ssa.Value]bool) (bool, string) {
	st, ok := base.Type().Underlying().(*types.Slice)
	if !ok || seen[base] {
		return false, ""
	}
	seen[base] = true
	v := p.origin(base)
	for i := 0; i < 10; i++ {
		switch x := v.(type) {
		case *ssa.Slice:
			v = p.origin(x.X)
			continue
		case *ssa.MakeSlice:
			// a local slice whose length is taken from a field of a received packet (make([]T, fb.PacketStatusCount))
			if w := packetDerivedLength(p, x.Len); w != "" {
				return true, "local slice whose length is " + w
			}
		case *ssa.Call:
			// a slice handed out by a method of a received pion/rtp|rtcp value (header.GetExtension, packet payloads)
			if sc := x.Call.StaticCallee(); sc != nil && sc.Pkg != nil && (sc.Pkg.Pkg.Path() == rtpPath || sc.Pkg.Pkg.Path() == rtcpPath) &&
				len(x.Call.Args) > 0 && parsedRoot(p, x.Call.Args[0], 0) {
				return true, "result of " + sc.Name() + " on a received packet"
			}
		case *ssa.Parameter:
			if fromPkg(st.Elem(), rtcpPath) {
				return true, "parameter with elements " + types.TypeString(st.Elem(), nil)
			}
			if p.packetEntryParam(x) {
				return true, "packet bytes handed to " + funcKey(x.Parent())
			}
		case *ssa.Phi:
			for _, e := range x.Edges {
				if e == ssa.Value(x) {
					continue
				}
				if u, w := untrustedSliceS(p, e, seen); u {
					return true, w
				}
			}
		case *ssa.UnOp:
			if x.Op == token.MUL {
				if fa, ok := x.X.(*ssa.FieldAddr); ok && fromPkg(fa.X.Type(), rtcpPath, rtpPath) && parsedRoot(p, fa.X, 0) {
					return true, "field " + fieldKeyAddr(fa) + " of a received packet"
				}
			}
		case *ssa.Field:
			if fromPkg(x.X.Type(), rtcpPath, rtpPath) && parsedRoot(p, x.X, 0) {
				return true, "field of a received " + typeKey(x.X.Type())
			}
		}
		break
	}
	return false, ""
}

// loopBoundTiedToLength: the index access sits in a loop one of whose exit conditions is computed from the same packet
// field(s) as the length of the locally made slice.
func loopBoundTiedToLength(p *Prog, at *ssa.IndexAddr, ms *ssa.MakeSlice) bool {
	fields := map[string]bool{}
	p.backwardReaches(ms.Len, func(v ssa.Value) bool {
		if u, ok := v.(*ssa.UnOp); ok && u.Op == token.MUL {
			if fa, ok := u.X.(*ssa.FieldAddr); ok && fromPkg(fa.X.Type(), rtcpPath, rtpPath) {
				fields[fieldKeyAddr(fa)] = true
			}
		}
		return false
	})
	if len(fields) == 0 {
		return false
	}
	// innermost loop containing the access
	var inner map[*ssa.BasicBlock]bool
	for _, body := range naturalLoops(at.Parent()) {
		if body[at.Block()] && (inner == nil || len(body) < len(inner)) {
			inner = body
		}
	}
	if inner == nil {
		return false
	}
	for _, body := range []map[*ssa.BasicBlock]bool{inner} {
		for b := range body {
			c := ifCond(b)
			if c == nil {
				continue
			}
			// an exit condition: one successor leaves the loop
			if body[b.Succs[0]] && body[b.Succs[1]] {
				continue
			}
			tied := p.backwardReaches(c, func(v ssa.Value) bool {
				if u, ok := v.(*ssa.UnOp); ok && u.Op == token.MUL {
					if fa, ok := u.X.(*ssa.FieldAddr); ok && fields[fieldKeyAddr(fa)] {
						return true
					}
				}
				return false
			})
			if tied {
				return true
			}
		}
	}
	return false
}

// packetDerivedLength: the length expression reads a scalar field of a received pion/rtcp|rtp value (not len() of a
// slice: a slice made with len(S) and indexed by the range index over S is handled by the caller).
func packetDerivedLength(p *Prog, l ssa.Value) string {
	w := ""
	p.backwardReaches(l, func(v ssa.Value) bool {
		u, ok := v.(*ssa.UnOp)
		if !ok || u.Op != token.MUL {
			return false
		}
		fa, ok := u.X.(*ssa.FieldAddr)
		if !ok || !fromPkg(fa.X.Type(), rtcpPath, rtpPath) || !parsedRoot(p, fa.X, 0) {
			return false
		}
		if _, isBasic := u.Type().Underlying().(*types.Basic); !isBasic {
			return false
		}
		w = "field " + fieldKeyAddr(fa) + " of a received packet"
		return true
	})
	return w
}

// packetEntryParam: a []byte parameter of a per-packet closure or of a Write/Read method that implements one of the
// chain interfaces (pacers).
func (p *Prog) packetEntryParam(par *ssa.Parameter) bool {
	if bt, ok := par.Type().Underlying().(*types.Slice); !ok || !types.Identical(bt.Elem(), types.Typ[types.Byte]) {
		return false
	}
	fn := par.Parent()
	if p.pktClosureSet == nil {
		p.pktClosureSet = map[*ssa.Function]bool{}
		cl, _ := p.PktClosures()
		for _, c := range cl {
			p.pktClosureSet[c.Fn] = true
		}
	}
	if p.pktClosureSet[fn] {
		return true
	}
	if recv := fn.Signature.Recv(); recv != nil && (fn.Name() == "Write" || fn.Name() == "Read") {
		for _, n := range []string{"RTPWriter", "RTPReader", "RTCPReader"} {
			if types.Implements(recv.Type(), p.rootIface(n)) {
				return true
			}
		}
	}
	return false
}

// lenMinusConst matches len(base)-c (c ≥ 1) and returns c.
func lenMinusConst(p *Prog, idx ssa.Value, baseKey string) (int64, bool) {
	bo, ok := p.origin(idx).(*ssa.BinOp)
	if !ok || bo.Op != token.SUB {
		return 0, false
	}
	c, ok := constInt(bo.Y)
	if !ok || !isLenOf(p, p.origin(bo.X), baseKey) {
		return 0, false
	}
	return c, true
}

// fixedWidthDecoders: library functions that read a fixed number of bytes from their slice argument and panic on a
// shorter one: name → (argument index, bytes needed).
var fixedWidthDecoders = map[string][2]int{
	"(encoding/binary.bigEndian).Uint16": {1, 2}, "(encoding/binary.bigEndian).Uint32": {1, 4}, "(encoding/binary.bigEndian).Uint64": {1, 8},
	"(encoding/binary.littleEndian).Uint16": {1, 2}, "(encoding/binary.littleEndian).Uint32": {1, 4}, "(encoding/binary.littleEndian).Uint64": {1, 8},
	"(encoding/binary.bigEndian).PutUint16": {1, 2}, "(encoding/binary.bigEndian).PutUint32": {1, 4}, "(encoding/binary.bigEndian).PutUint64": {1, 8},
}

func fF1F3(p *Prog, o *obls, fn *ssa.Function) {
	loops := findRangeLoops(fn)
	fk := funcKey(fn)
	instrsOf(fn, func(in ssa.Instruction) {
		switch x := in.(type) {
		case *ssa.Call:
			spec, ok := fixedWidthDecoders[calleeName(&x.Call)]
			if !ok || spec[0] >= len(x.Call.Args) {
				return
			}
			b := x.Call.Args[spec[0]]
			unt, why := untrustedSlice(p, b)
			if !unt {
				return
			}
			// a constant-bounded re-slice b[i:i+k] of sufficient width is checked by the slice itself
			if sl, ok := p.origin(b).(*ssa.Slice); ok && sl.High != nil && sl.Low != nil {
				if lo, ok1 := constInt(sl.Low); ok1 {
					if hi, ok2 := constInt(sl.High); ok2 && hi-lo >= int64(spec[1]) {
						return
					}
				}
			}
			bKey := p.pureKey(b)
			isLen := func(v ssa.Value) bool { return isLenOf(p, v, bKey) }
			construct := fk + ":" + x.Call.StaticCallee().Name() + "(" + shortExpr(p, b) + ")"
			if g, w := p.guardedBy(x, isLen, func(ssa.Value) bool { return true }); g {
				o.ok("F1", construct, p.instrPos(x), fmt.Sprintf("%d-byte decode of a packet-derived slice guarded by %s", spec[1], w))
			} else {
				o.bad("F1", construct, p.instrPos(x), fmt.Sprintf("%d-byte fixed-width decode of a slice taken from a received packet (%s) without a dominating test of its length: a shorter slice panics", spec[1], why))
			}
		case *ssa.IndexAddr:
			if _, isSlice := x.X.Type().Underlying().(*types.Slice); !isSlice {
				return
			}
			baseKey := p.pureKey(x.X)
			// range induction over the same slice
			for _, l := range loops {
				if l.Index == x.Index && p.pureKey(l.Slice) == baseKey {
					return
				}
			}
			leaves := exprLeaves(p, x.Index)
			isIdx := func(v ssa.Value) bool {
				if v == x.Index || p.pureKey(v) == p.pureKey(x.Index) {
					return true
				}
				for _, l := range leaves {
					if v == l {
						return true
					}
				}
				return false
			}
			isLen := func(v ssa.Value) bool { return isLenOf(p, v, baseKey) }
			construct := fk + ":" + shortExpr(p, x.X) + "[" + shortExpr(p, x.Index) + "]"
			if c, ok := lenMinusConst(p, x.Index, baseKey); ok {
				// F1b: s[len(s)-c] needs a test of len(s) that establishes len(s) >= c: a comparison with a constant
				// must bound the length from below (`len(s) > max` on the way bounds it from above and does not count);
				// a comparison with a run-time quantity is accepted as the relation the code relies on
				if g, w := p.lowerGuarded(x, isLen, c); g {
					o.ok("F1", construct, p.instrPos(x), fmt.Sprintf("length-relative index len-%d guarded by %s", c, w))
				} else {
					o.bad("F1", construct, p.instrPos(x), fmt.Sprintf("index len(s)-%d without a dominating test of len(s): panics on a slice shorter than %d", c, c))
				}
				return
			}
			unt, why := untrustedSlice(p, x.X)
			if !unt {
				return
			}
			if g, w := p.guardedBy(x, isIdx, isLen); g {
				o.ok("F1", construct, p.instrPos(x), "index into packet-derived slice ("+why+") guarded by "+w)
				return
			}
			// an index that is a constant needs a length test too
			if _, isC := constInt(x.Index); isC {
				if g, w := p.guardedBy(x, isLen, func(ssa.Value) bool { return true }); g {
					o.ok("F1", construct, p.instrPos(x), "constant index guarded by "+w)
					return
				}
			}
			if ms, ok := p.origin(x.X).(*ssa.MakeSlice); ok && loopBoundTiedToLength(p, x, ms) {
				o.note("F1", construct, p.instrPos(x), "index counts the iterations of a loop whose bound is computed from the same packet field as the slice length (arithmetic relation, not decided)")
				return
			}
			o.bad("F1", construct, p.instrPos(x), "index into a slice taken from a parsed packet ("+why+") with no dominating comparison of the index with the slice length: a well-formed but inconsistent packet indexes out of range")
		case *ssa.Slice:
			if _, isSlice := x.X.Type().Underlying().(*types.Slice); !isSlice {
				return
			}
			baseKey := p.pureKey(x.X)
			construct := fk + ":" + shortExpr(p, x.X) + "[" + shortExpr(p, x.Low) + ":" + shortExpr(p, x.High) + "]"
			// F3b: bound len(s)-u with non-constant u
			for _, bnd := range []ssa.Value{x.Low, x.High} {
				if bnd == nil {
					continue
				}
				bo, ok := p.origin(bnd).(*ssa.BinOp)
				if !ok || bo.Op != token.SUB || !isLenOf(p, p.origin(bo.X), baseKey) && !lenOfSibling(p, bo.X, x.X) {
					continue
				}
				if _, isC := constInt(bo.Y); isC {
					continue
				}
				u := bo.Y
				isU := func(v ssa.Value) bool { return v == u || p.pureKey(v) == p.pureKey(u) }
				isLenAny := func(v ssa.Value) bool {
					c, ok := v.(*ssa.Call)
					return ok && builtinName(&c.Call) == "len"
				}
				if g, w := p.guardedBy(x, isU, isLenAny); g {
					o.ok("F3", construct, p.instrPos(x), "length-relative bound guarded by "+w)
				} else {
					o.bad("F3", construct, p.instrPos(x), "slice bound len(s)-u with a packet-derived u and no dominating comparison of u with the length")
				}
				return
			}
			// F3c: s[:n] with n a count taken from a received packet: n is the peer's claim, len(s) is what was actually
			// unpacked — a report announcing more statuses than its chunks carry re-slices past the capacity
			if x.High != nil {
				if _, hc := constInt(x.High); !hc {
					if _, lowC := constInt(x.Low); x.Low == nil || lowC {
						if w := packetDerivedLength(p, x.High); w != "" {
							hi := x.High
							isHi := func(v ssa.Value) bool { return v == hi || p.pureKey(v) == p.pureKey(hi) }
							isLenOrCap := func(v ssa.Value) bool {
								c, ok := v.(*ssa.Call)
								if !ok {
									return false
								}
								b := builtinName(&c.Call)
								return (b == "len" || b == "cap") && p.pureKey(c.Call.Args[0]) == baseKey
							}
							if g, gw := p.guardedBy(x, isHi, isLenOrCap); g {
								o.ok("F3", construct, p.instrPos(x), "packet-derived upper bound guarded by "+gw)
							} else if ms, isMS := p.origin(x.X).(*ssa.MakeSlice); isMS && (p.pureKey(ms.Len) == p.pureKey(hi) || ms.Cap != nil && p.pureKey(ms.Cap) == p.pureKey(hi)) {
								o.ok("F3", construct, p.instrPos(x), "the slice was made with this very length")
							} else {
								o.bad("F3", construct, p.instrPos(x), "the upper bound is "+w+" and nothing compares it with the length of the slice it cuts: a packet that announces more entries than it carries re-slices past the capacity and panics")
							}
							return
						}
					}
				}
			}
			// F3d: s[:len(s)-k] drops the last k elements — of a slice that has them. Without a comparison of len(s) with a
			// constant on the way (len(s) > 0, len(s) >= k) the bound is negative for an empty or nil slice: a buffer that
			// another branch has just reset
			if x.High != nil && (x.Low == nil) {
				if sub, isSub := p.origin(x.High).(*ssa.BinOp); isSub && sub.Op == token.SUB {
					if k, isK := constInt(sub.Y); isK && k > 0 {
						if lc, isLen := p.origin(sub.X).(*ssa.Call); isLen && builtinName(&lc.Call) == "len" && p.pureKey(lc.Call.Args[0]) == baseKey {
							isLenV := func(v ssa.Value) bool {
								c, ok := v.(*ssa.Call)
								return ok && builtinName(&c.Call) == "len" && p.pureKey(c.Call.Args[0]) == baseKey
							}
							isConstV := func(v ssa.Value) bool { _, ok := v.(*ssa.Const); return ok }
							if g, gw := p.guardedBy(x, isLenV, isConstV); g {
								o.ok("F3", construct, p.instrPos(x), "the length is compared with a constant first ("+gw+")")
							} else if f3LoopBounded(p, x, baseKey) {
								o.ok("F3", construct, p.instrPos(x), "inside a loop that runs while the slice is not empty")
							} else {
								o.bad("F3", construct, p.instrPos(x), fmt.Sprintf("the slice is cut to len-%d without a test that it holds that many elements: for an empty or nil slice (a buffer that another branch has just reset) the bound is negative and the expression panics", k))
							}
							return
						}
					}
				}
			}
			// F3: both bounds non-constant and from different sources
			if x.Low == nil || x.High == nil {
				return
			}
			if _, lc := constInt(x.Low); lc {
				return
			}
			if _, hc := constInt(x.High); hc {
				return
			}
			lo, hi := x.Low, x.High
			isLo := func(v ssa.Value) bool { return v == lo || p.pureKey(v) == p.pureKey(lo) }
			isHi := func(v ssa.Value) bool { return v == hi || p.pureKey(v) == p.pureKey(hi) }
			// hi = lo + something non-negative (headerSize : headerSize+max) is ordered by construction
			if p.mentions(hi, isLo) {
				if bo, ok := p.origin(hi).(*ssa.BinOp); ok && bo.Op == token.ADD {
					o.ok("F3", construct, p.instrPos(x), "high bound is low bound plus an offset")
					return
				}
			}
			if g, w := p.guardedBy(x, isLo, isHi); g {
				o.ok("F3", construct, p.instrPos(x), "bounds ordered by "+w)
				return
			}
			if marshalSizeIdiom(p, x) {
				o.ok("F3", construct, p.instrPos(x), "low bound is MarshalSize() of a header parsed from the same buffer[:high] (pion/rtp: a parsed header is never longer than its input)")
				return
			}
			o.bad("F3", construct, p.instrPos(x), "two-sided slice with independent bounds and no dominating comparison between them: low > high panics")
		}
	})
}

// lenOfSibling: len(y) where y and base are slices of the same underlying buffer field (payload vs *buffer).
func lenOfSibling(p *Prog, v ssa.Value, base ssa.Value) bool {
	c, ok := p.origin(v).(*ssa.Call)
	return ok && builtinName(&c.Call) == "len"
}

// marshalSizeIdiom: B[H.MarshalSize():n] where H was obtained from GetRTPHeader(B[:n]) / Unmarshal(B[:n]).
func marshalSizeIdiom(p *Prog, sl *ssa.Slice) bool {
	call, ok := p.origin(sl.Low).(*ssa.Call)
	if !ok || call.Call.StaticCallee() == nil || call.Call.StaticCallee().Name() != "MarshalSize" {
		return false
	}
	if len(call.Call.Args) == 0 {
		return false
	}
	recv := call.Call.Args[0]
	// recv is *h where h is extract #0 of a parse call whose argument is B[:high]
	found := false
	p.backwardReaches(recv, func(v ssa.Value) bool {
		pc, ok := v.(*ssa.Call)
		if !ok {
			return false
		}
		name := calleeName(&pc.Call)
		if !strings.HasSuffix(name, ".GetRTPHeader") && !strings.HasSuffix(name, ".Unmarshal") {
			return false
		}
		for _, a := range pc.Call.Args {
			if s2, ok := p.origin(a).(*ssa.Slice); ok {
				if p.pureKey(s2.X) == p.pureKey(sl.X) && p.pureKey(s2.High) == p.pureKey(sl.High) && (s2.Low == nil || isConstInt(s2.Low, 0)) {
					found = true
				}
			}
		}
		return found
	})
	return found
}

func shortExpr(p *Prog, v ssa.Value) string {
	if v == nil {
		return ""
	}
	k := p.pureKey(v)
	k = strings.ReplaceAll(k, "param:", "")
	// drop function suffixes of params and pointer noise
	var sb strings.Builder
	skip := false
	for _, r := range k {
		if r == '@' {
			skip = true
			continue
		}
		if skip {
			if r == '.' || r == ')' || r == '[' || r == ']' || r == '(' || r == ':' || r == '+' || r == '-' || r == '*' {
				skip = false
			} else {
				continue
			}
		}
		sb.WriteRune(r)
	}
	s := sb.String()
	if len(s) > 60 {
		s = s[:60] + "…"
	}
	return s
}

// ---- F2 ---------------------------------------------------------------------------------------------------------

// poolBuffer: v is (a slice of) a byte buffer obtained from a sync.Pool; returns the Get call.
func poolBufferOrigin(p *Prog, v ssa.Value) *ssa.Call {
	var get *ssa.Call
	seen := map[ssa.Value]bool{}
	// a field of an object handed in as a parameter (a helper filling a packet its caller allocated): the values this
	// function stores to the same field path of the same parameter
	paramRooted := func(addr ssa.Value, visit func(ssa.Value)) {
		fa, ok := addr.(*ssa.FieldAddr)
		if !ok {
			return
		}
		par, ok := p.origin(addrRoot(fa)).(*ssa.Parameter)
		if !ok {
			return
		}
		instrsOf(par.Parent(), func(in ssa.Instruction) {
			if st, ok := in.(*ssa.Store); ok && p.origin(addrRoot(st.Addr)) == ssa.Value(par) && sameFieldPath(st.Addr, fa) {
				visit(st.Val)
			}
		})
	}
	// a field of a local object that a helper fills in (`m.attachBuffer(pkt)` stores the pooled buffer into pkt.buffer):
	// the values the helper stores to the same field path of the parameter the object is passed as
	filledByCallee := func(al *ssa.Alloc, addr ssa.Value, visit func(ssa.Value)) {
		instrsOf(al.Parent(), func(in ssa.Instruction) {
			c, ok := in.(*ssa.Call)
			if !ok {
				return
			}
			sc := c.Call.StaticCallee()
			if sc == nil || !p.InUniverse(sc) || sc.Blocks == nil {
				return
			}
			for k, a := range c.Call.Args {
				if k >= len(sc.Params) || cellAddr(p.origin(a)) != ssa.Value(al) && p.origin(a) != ssa.Value(al) {
					continue
				}
				par := sc.Params[k]
				instrsOf(sc, func(in2 ssa.Instruction) {
					if st, ok := in2.(*ssa.Store); ok && p.origin(addrRoot(st.Addr)) == ssa.Value(par) && sameFieldPath(st.Addr, addr) {
						visit(st.Val)
					}
				})
			}
		})
	}
	var walk func(v ssa.Value, d int)
	walk = func(v ssa.Value, d int) {
		if v == nil || seen[v] || d > 30 || get != nil {
			return
		}
		seen[v] = true
		switch x := v.(type) {
		case *ssa.Call:
			if isCallTo(&x.Call, "(*sync.Pool).Get") {
				get = x
				return
			}
			// a repository helper that takes the buffer out of the pool and returns it (fromPool[T](pool, err))
			if sc := x.Call.StaticCallee(); sc != nil && p.InUniverse(sc) && sc.Blocks != nil && d < 20 {
				for _, b := range sc.Blocks {
					if ret, ok := b.Instrs[len(b.Instrs)-1].(*ssa.Return); ok {
						for _, r := range ret.Results {
							walk(r, d+10)
						}
					}
				}
			}
		case *ssa.TypeAssert:
			walk(x.X, d+1)
		case *ssa.Extract:
			walk(x.Tuple, d+1)
		case *ssa.Slice:
			walk(x.X, d+1)
		case *ssa.ChangeType:
			walk(x.X, d+1)
		case *ssa.Phi:
			for _, e := range x.Edges {
				walk(e, d+1)
			}
		case *ssa.UnOp:
			if x.Op == token.MUL {
				// *buf where buf is the pooled *[]byte; or a load of a local cell / a field of a locally built object
				walk(x.X, d+1)
				root := addrRoot(x.X)
				if al, ok := cellAddr(root).(*ssa.Alloc); ok {
					for _, st := range p.storesInto(al) {
						if sameFieldPath(st.Addr, x.X) {
							walk(st.Val, d+1)
						}
					}
					filledByCallee(al, x.X, func(v ssa.Value) { walk(v, d+5) })
				}
				paramRooted(x.X, func(v ssa.Value) { walk(v, d+1) })
			}
		case *ssa.FieldAddr:
			// field of a local object: values stored to that field
			if al, ok := cellAddr(addrRoot(x)).(*ssa.Alloc); ok {
				for _, st := range p.storesInto(al) {
					if sameFieldPath(st.Addr, x) {
						walk(st.Val, d+1)
					}
				}
				filledByCallee(al, x, func(v ssa.Value) { walk(v, d+5) })
			}
			paramRooted(x, func(v ssa.Value) { walk(v, d+1) })
		}
	}
	walk(v, 0)
	return get
}

// sameFieldPath: two addresses select the same field path (ignoring the base object's identity).
func sameFieldPath(a, b ssa.Value) bool {
	for {
		fa, ok1 := a.(*ssa.FieldAddr)
		fb, ok2 := b.(*ssa.FieldAddr)
		if ok1 != ok2 {
			return false
		}
		if !ok1 {
			return true
		}
		if fa.Field != fb.Field || !types.Identical(deref(fa.X.Type()), deref(fb.X.Type())) {
			return false
		}
		// step through a load of a pointer field
		a, b = stripLoad(fa.X), stripLoad(fb.X)
	}
}

func stripLoad(v ssa.Value) ssa.Value {
	if u, ok := v.(*ssa.UnOp); ok && u.Op == token.MUL {
		return u.X
	}
	return v
}

// poolBufferSize resolves the constant size of the buffers a pool hands out: the pool value flows from a
// &sync.Pool{New: func} literal whose New makes a byte slice of constant length.
func poolBufferSize(p *Prog, get *ssa.Call) (int64, bool) {
	recv := get.Call.Args[0]
	var pools []ssa.Value
	switch x := p.origin(recv).(type) {
	case *ssa.Global:
		pools = append(pools, x)
	case *ssa.UnOp:
		if fa, ok := x.X.(*ssa.FieldAddr); ok {
			fv := fieldOfAddr(fa)
			for _, st := range p.storesToField(fv) {
				pools = append(pools, st.Val)
			}
		}
	default:
		pools = append(pools, recv)
	}
	size := int64(-1)
	for _, pv := range pools {
		var news []*ssa.Function
		if g, ok := pv.(*ssa.Global); ok {
			// package-level pool: find stores to &g.New in init
			for _, f := range allFuncsOfPkg(p, g.Pkg) {
				instrsOf(f, func(in ssa.Instruction) {
					if st, ok := in.(*ssa.Store); ok {
						if fa, ok := st.Addr.(*ssa.FieldAddr); ok && fa.X == ssa.Value(g) {
							if mc, ok := st.Val.(*ssa.MakeClosure); ok {
								news = append(news, mc.Fn.(*ssa.Function))
							} else if f2, ok := st.Val.(*ssa.Function); ok {
								news = append(news, f2)
							}
						}
					}
				})
			}
		} else if al, ok := p.origin(pv).(*ssa.Alloc); ok {
			for _, st := range p.storesInto(al) {
				if mc, ok := st.Val.(*ssa.MakeClosure); ok {
					news = append(news, mc.Fn.(*ssa.Function))
				} else if f2, ok := st.Val.(*ssa.Function); ok {
					news = append(news, f2)
				}
			}
		}
		for _, nf := range news {
			instrsOf(nf, func(in ssa.Instruction) {
				if ms, ok := in.(*ssa.MakeSlice); ok {
					if c, ok := constInt(ms.Len); ok {
						if size == -1 || c < size {
							size = c
						}
					}
				}
				// make([]byte, K) with constant K is `new [K]byte` + slice in go/ssa
				if al, ok := in.(*ssa.Alloc); ok {
					if at, ok := deref(al.Type()).Underlying().(*types.Array); ok && types.Identical(at.Elem(), types.Typ[types.Byte]) {
						if size == -1 || at.Len() < size {
							size = at.Len()
						}
					}
				}
			})
		}
	}
	return size, size >= 0
}

func allFuncsOfPkg(p *Prog, pkg *ssa.Package) []*ssa.Function {
	var out []*ssa.Function
	for _, m := range pkg.Members {
		if f, ok := m.(*ssa.Function); ok {
			out = append(out, allNested(f)...)
		}
	}
	return out
}

// storesToField returns every store in the universe to the given struct field (any base object).
func (p *Prog) storesToField(fv *types.Var) []*ssa.Store {
	if !p.fieldStoresOnce {
		p.fieldStoresOnce = true
		p.fieldStores = map[*types.Var][]*ssa.Store{}
		for _, f := range p.Funcs {
			instrsOf(f, func(in ssa.Instruction) {
				if st, ok := in.(*ssa.Store); ok {
					if fa, ok := st.Addr.(*ssa.FieldAddr); ok {
						if v := fieldOfAddr(fa); v != nil {
							p.fieldStores[v] = append(p.fieldStores[v], st)
						}
					}
				}
			})
		}
	}
	return p.fieldStores[fv]
}

func fF2(p *Prog, o *obls, fn *ssa.Function) {
	fk := funcKey(fn)
	instrsOf(fn, func(in ssa.Instruction) {
		call, ok := in.(*ssa.Call)
		if !ok {
			return
		}
		switch builtinName(&call.Call) {
		case "copy":
			dst, src := call.Call.Args[0], call.Call.Args[1]
			get := poolBufferOrigin(p, dst)
			if get == nil {
				return
			}
			// source whose length is tied to the destination (copy(buf, buf2[:n]) within the pool) is not our concern:
			// only sources that are not pool buffers themselves
			if poolBufferOrigin(p, src) != nil {
				return
			}
			construct := fk + ":copy(" + shortExpr(p, dst) + "," + shortExpr(p, src) + ")"
			srcKey := p.pureKey(src)
			isSrcLen := func(v ssa.Value) bool { return isLenOf(p, v, srcKey) }
			any := func(ssa.Value) bool { return true }
			// offset of the destination within the buffer
			off := int64(0)
			if sl, ok := p.origin(dst).(*ssa.Slice); ok && sl.Low != nil {
				if c, ok := constInt(sl.Low); ok {
					off = c
				} else {
					off = -1
				}
			}
			K, kOK := poolBufferSize(p, get)
			// (a) the destination is re-allocated to the source length when the pooled buffer is too small
			if reallocWhenSmall(p, dst, src) {
				o.ok("F2", construct, p.instrPos(call), "destination is re-allocated to len(source) when the pooled buffer is too small")
				return
			}
			// (b) on every feasible path class the source length is bounded
			classes := p.factsAt(call.Block())
			allBounded, anyGuard := true, false
			worst := int64(-1)
			var wit *ssa.BinOp
			for _, class := range classes {
				ub, ok, w := p.upperBoundInClass(class, isSrcLen)
				if !ok {
					// the copy sits in a helper: the length test is made by every caller
					ub, ok, w = p.callerLenBound(fn, src, class, ipDepth)
				}
				if ok {
					anyGuard = true
					if ub > worst {
						worst, wit = ub, w
					}
					continue
				}
				// a comparison of len(src) with something non-constant (len of the buffer) also counts as a guard
				g := false
				for _, f := range class {
					if bo, ok := f.cond.(*ssa.BinOp); ok && isComparison(bo.Op) && (p.mentions(bo.X, isSrcLen) || p.mentions(bo.Y, isSrcLen)) {
						g = true
					}
				}
				if g {
					anyGuard = true
					worst = -2 // symbolic
				} else {
					allBounded = false
				}
			}
			_ = any
			if !allBounded || !anyGuard {
				w := "copy into a pooled fixed-size buffer with no test of the source length on some path"
				if kOK {
					w += fmt.Sprintf(" (pool buffers are %d bytes)", K)
				}
				o.bad("F2", construct, p.instrPos(call), w+": a larger payload is silently truncated and a later re-slice to the original length panics")
				return
			}
			if worst >= 0 && kOK && off >= 0 {
				if worst+off > K {
					o.bad("F2", construct, p.instrPos(call), fmt.Sprintf("the length guard (%s at %s) admits %d bytes but the copy starts at offset %d of a %d-byte pooled buffer: payloads of %d..%d bytes are silently truncated",
						valueString(wit), p.instrPosV(wit), worst, off, K, K-off+1, worst))
					return
				}
				o.ok("F2", construct, p.instrPos(call), fmt.Sprintf("guards admit ≤ %d bytes, offset %d, buffer %d bytes", worst, off, K))
				return
			}
			var guard ssa.Value = wit
			if wit == nil {
				guard = call
			}
			o.ok("F2", construct, p.instrPos(call), "source length tested on every path ("+valueString(guard)+" at "+p.instrPosV(guard)+")")
		}
	})
	// re-slices of a pooled buffer to a length that is not derived from the buffer itself
	instrsOf(fn, func(in ssa.Instruction) {
		sl, ok := in.(*ssa.Slice)
		if !ok || sl.High == nil {
			return
		}
		if _, isC := constInt(sl.High); isC {
			return
		}
		if _, isSlice := sl.X.Type().Underlying().(*types.Slice); !isSlice {
			return
		}
		get := poolBufferOrigin(p, sl.X)
		if get == nil {
			return
		}
		hi := sl.High
		// bound derived from the result of a copy into, or the length of a slice of, a pooled buffer: fits by construction
		derivedFromBuf := p.backwardReaches(hi, func(v ssa.Value) bool {
			c, ok := v.(*ssa.Call)
			if !ok {
				return false
			}
			switch builtinName(&c.Call) {
			case "copy":
				return poolBufferOrigin(p, c.Call.Args[0]) != nil
			case "len", "cap":
				return poolBufferOrigin(p, c.Call.Args[0]) != nil
			}
			return false
		})
		if derivedFromBuf {
			return
		}
		construct := fk + ":" + shortExpr(p, sl.X) + "[:" + shortExpr(p, hi) + "]"
		isHi := func(v ssa.Value) bool { return v == hi || p.pureKey(v) == p.pureKey(hi) }
		baseKey := p.pureKey(sl.X)
		isLenB := func(v ssa.Value) bool {
			if isLenOf(p, v, baseKey) {
				return true
			}
			if c, ok := v.(*ssa.Call); ok && (builtinName(&c.Call) == "len" || builtinName(&c.Call) == "cap") {
				return poolBufferOrigin(p, c.Call.Args[0]) != nil
			}
			_, isC := constInt(v)
			return isC
		}
		if g, w := p.guardedBy(sl, isHi, isLenB); g {
			o.ok("F2", construct, p.instrPos(sl), "re-slice bound tested by "+w)
			return
		}
		// the bound may have been tested before a φ that re-allocates: accept a test that dominates the slice's base φ
		if phi, ok := p.origin(sl.X).(*ssa.Phi); ok {
			for _, e := range phi.Edges {
				if ms, ok := e.(*ssa.MakeSlice); ok && p.pureKey(ms.Len) == p.pureKey(hi) {
					o.ok("F2", construct, p.instrPos(sl), "buffer re-allocated to the bound when the pooled one is too small")
					return
				}
			}
		}
		if fieldLoadBound(hi) {
			o.note("F2", construct, p.instrPos(sl), "re-slice of a pooled buffer to a length stored with it (decided at the copy site that stored the length)")
			return
		}
		o.bad("F2", construct, p.instrPos(sl), "pooled fixed-size buffer re-sliced to a length that is not tested against the buffer size")
	})
}

// reallocWhenSmall: dst is *φ / φ where one incoming value is the pooled buffer and the others are fresh
// make([]byte, len(src)) allocations chosen by a branch that compares len(src) with the pooled buffer's length.
func reallocWhenSmall(p *Prog, dst, src ssa.Value) bool {
	srcKey := p.pureKey(src)
	isSrcLen := func(v ssa.Value) bool { return isLenOf(p, v, srcKey) }
	if reallocWhenSmallV(p, dst, isSrcLen) {
		return true
	}
	// the buffer is obtained from a repository helper that is told len(source) and makes the choice itself
	// (buf, err := p.bufferFor(len(payload)))
	v := dst
	for i := 0; i < 6; i++ {
		switch x := v.(type) {
		case *ssa.UnOp:
			v = x.X
			continue
		case *ssa.Slice:
			if x.Low != nil && !isConstInt(x.Low, 0) {
				return false
			}
			v = x.X
			continue
		case *ssa.Extract:
			v = x.Tuple
			continue
		}
		break
	}
	call, ok := v.(*ssa.Call)
	if !ok {
		return false
	}
	h := call.Call.StaticCallee()
	if h == nil || !p.InUniverse(h) || h.Blocks == nil {
		return false
	}
	for k, a := range call.Call.Args {
		if k >= len(h.Params) || !isSrcLen(p.origin(a)) {
			continue
		}
		par := h.Params[k]
		isPar := func(v ssa.Value) bool { return p.origin(v) == ssa.Value(par) }
		good, n := true, 0
		for _, b := range h.Blocks {
			ret, isRet := b.Instrs[len(b.Instrs)-1].(*ssa.Return)
			if !isRet || len(ret.Results) == 0 || b == h.Recover {
				continue
			}
			rv := returnedValue(ret, 0)
			if cst, isC := rv.(*ssa.Const); isC && cst.IsNil() {
				continue
			}
			n++
			if !reallocWhenSmallV(p, rv, isPar) {
				good = false
			}
		}
		if good && n > 0 {
			return true
		}
	}
	return false
}

// reallocWhenSmallV: v is a φ of the pooled buffer and a fresh make(…, n) with n satisfying isSrcLen, selected by a
// comparison of such an n with the length of the pooled buffer.
func reallocWhenSmallV(p *Prog, dst ssa.Value, isSrcLen func(ssa.Value) bool) bool {
	v := dst
	for i := 0; i < 6; i++ {
		switch x := v.(type) {
		case *ssa.UnOp:
			v = x.X
			continue
		case *ssa.Slice:
			if x.Low != nil && !isConstInt(x.Low, 0) {
				return false
			}
			v = x.X
			continue
		}
		break
	}
	phi, ok := v.(*ssa.Phi)
	if !ok {
		return false
	}
	fresh := 0
	for _, e := range phi.Edges {
		if poolBufferOrigin(p, e) != nil {
			continue
		}
		// e is a make([]byte, len(src)) or the address of a cell holding one
		var ms *ssa.MakeSlice
		switch x := e.(type) {
		case *ssa.MakeSlice:
			ms = x
		case *ssa.Alloc:
			for _, st := range p.storesToCell(x) {
				if m, ok := st.Val.(*ssa.MakeSlice); ok {
					ms = m
				}
			}
		}
		if ms == nil || !isSrcLen(p.origin(ms.Len)) {
			return false
		}
		fresh++
	}
	if fresh == 0 {
		return false
	}
	// the selecting branch compares len(src) with a length of the pooled buffer
	for d := phi.Block().Idom(); d != nil; d = d.Idom() {
		c := ifCond(d)
		if c == nil {
			continue
		}
		if bo, ok := c.(*ssa.BinOp); ok && isComparison(bo.Op) {
			isBufLen := func(v ssa.Value) bool {
				c, ok := v.(*ssa.Call)
				return ok && (builtinName(&c.Call) == "len" || builtinName(&c.Call) == "cap") && poolBufferOrigin(p, c.Call.Args[0]) != nil
			}
			if (p.mentions(bo.X, isSrcLen) && p.mentions(bo.Y, isBufLen)) || (p.mentions(bo.Y, isSrcLen) && p.mentions(bo.X, isBufLen)) {
				return true
			}
		}
		break
	}
	return false
}

// fieldLoadBound: the bound is loaded from a struct field (item.size): decided where it was stored.
func fieldLoadBound(v ssa.Value) bool {
	u, ok := v.(*ssa.UnOp)
	if !ok || u.Op != token.MUL {
		return false
	}
	_, ok = u.X.(*ssa.FieldAddr)
	return ok
}

// ---- F4 ---------------------------------------------------------------------------------------------------------

// parseFuncs: value-returning parsers (result, error) and receiver-filling parsers.
var parseValueFuncs = map[string]bool{
	"(github.com/pion/interceptor.Attributes).GetRTPHeader":   true,
	"(github.com/pion/interceptor.Attributes).GetRTCPPackets": true,
	"github.com/pion/rtcp.Unmarshal":                          true,
}
var parseRecvFuncs = map[string]bool{
	"(*github.com/pion/rtp.Header).Unmarshal":                 true,
	"(*github.com/pion/rtp.Packet).Unmarshal":                 true,
	"(*github.com/pion/rtp.TransportCCExtension).Unmarshal":   true,
	"(*github.com/pion/rtp.AbsSendTimeExtension).Unmarshal":   true,
	"(*github.com/pion/rtp.AudioLevelExtension).Unmarshal":    true,
}

func fF4(p *Prog, o *obls, fn *ssa.Function) {
	fk := funcKey(fn)
	instrsOf(fn, func(in ssa.Instruction) {
		call, ok := in.(*ssa.Call)
		if !ok {
			return
		}
		name := calleeName(&call.Call)
		isVal, isRecv := parseValueFuncs[name], parseRecvFuncs[name]
		ctor := false
		if !isVal && !isRecv {
			// a fallible constructor of the repository — (object, error) where every failing return hands back nil
			// for the object (PacketFactory.NewPacket): using the object where the error may be non-nil dereferences nil
			if !failsWithNilResult(p, call) {
				return
			}
			isVal, ctor = true, true
		}
		_ = ctor
		construct := fk + ":" + shortCallee(name)
		fe := errExtract(call)
		if _, isTuple := call.Type().(*types.Tuple); !isTuple {
			// single error result
			if isErrorType(call.Type()) {
				fe = nil
			}
		}
		var errV ssa.Value
		if fe != nil {
			errV = fe
		} else if isErrorType(call.Type()) {
			errV = call
		}
		checkUse := func(user ssa.Instruction, what string) string {
			if !canReach(call, user) {
				return ""
			}
			if ctor {
				// the error is thrown away altogether: whatever is done with the object rests on the belief that the
				// call cannot fail
				discarded := errV == nil
				if errV != nil {
					discarded = true
					if rs := errV.Referrers(); rs != nil {
						for _, r := range *rs {
							if _, isDbg := r.(*ssa.DebugRef); !isDbg {
								discarded = false
							}
						}
					}
				}
				if discarded {
					return beliefBacked(p, fn, call, user)
				}
				// only uses that dereference the object (or hand it, without its error, to code that may) matter:
				// storing a nil pointer, boxing it, merging it or returning it is harmless
				res := ssa.Value(extractN(call, 0))
				deref := false
				switch x := user.(type) {
				case *ssa.FieldAddr:
					deref = x.X == res
				case *ssa.IndexAddr:
					deref = x.X == res
				case *ssa.UnOp:
					deref = x.Op == token.MUL && x.X == res
				case ssa.CallInstruction:
					cc := x.Common()
					if cc.IsInvoke() && cc.Value == res {
						deref = true
					}
					withErr := false
					for _, a := range cc.Args {
						if errV != nil && p.origin(a) == errV {
							withErr = true
						}
					}
					if !withErr {
						for _, a := range cc.Args {
							if a == res {
								deref = true
							}
						}
					}
				}
				if !deref {
					return ""
				}
			}
			if ctor && errV != nil {
				used := false
				if rs := errV.Referrers(); rs != nil {
					for _, r := range *rs {
						if _, isDbg := r.(*ssa.DebugRef); !isDbg {
							used = true
						}
					}
				}
				if !used {
					return beliefBacked(p, fn, call, user)
				}
			}
			if errV == nil {
				if ctor {
					return beliefBacked(p, fn, call, user)
				}
				return fmt.Sprintf("%s used at %s although the parse error is discarded", what, p.instrPos(user))
			}
			if mi, ok := user.(*ssa.MakeInterface); ok && ctor && mi.Referrers() != nil {
				// `return NewX(…)` through an interface result: object and error are handed on together
				together := len(*mi.Referrers()) > 0
				for _, r := range *mi.Referrers() {
					ret, isRet := r.(*ssa.Return)
					has := false
					if isRet {
						for _, rv := range ret.Results {
							if p.origin(rv) == errV {
								has = true
							}
						}
					}
					if !has {
						if _, isDbg := r.(*ssa.DebugRef); !isDbg {
							together = false
						}
					}
				}
				if together {
					return ""
				}
			}
			if ret, ok := user.(*ssa.Return); ok {
				// handing result and error on together is fine
				for _, r := range ret.Results {
					if p.origin(r) == errV {
						return ""
					}
				}
			}
			if p.nilnessAt(errV, user.Block()) != -1 {
				if ctor {
					if res := extractN(call, 0); res != nil && p.nilnessAt(res, user.Block()) == 1 {
						return "" // tested non-nil itself
					}
					return fmt.Sprintf("the object is used at %s on a path on which the error may be non-nil (every failing return of the callee hands back nil): a nil dereference", p.instrPos(user))
				}
				return fmt.Sprintf("%s used at %s without being on the success branch of the parse error test", what, p.instrPos(user))
			}
			return ""
		}
		var problems []string
		if isVal {
			res := extractN(call, 0)
			if res != nil && res.Referrers() != nil {
				for _, u := range transitiveUsers(p, res) {
					if w := checkUse(u, "parse result"); w != "" {
						problems = append(problems, w)
					}
				}
			}
		} else {
			// receiver filled: uses of the receiver object after the call
			recv := p.origin(call.Call.Args[0])
			if al, ok := recv.(*ssa.Alloc); ok {
				for _, f := range allNested(al.Parent()) {
					instrsOf(f, func(u ssa.Instruction) {
						if u == ssa.Instruction(call) {
							return
						}
						uses := false
						for _, op := range u.Operands(nil) {
							if *op != nil && (p.origin(*op) == ssa.Value(al) || cellAddr(addrRoot(*op)) == ssa.Value(al)) {
								uses = true
							}
						}
						if !uses {
							return
						}
						if _, isStore := u.(*ssa.Store); isStore && !canReach(call, u) {
							return
						}
						if f == fn {
							if _, isAddr := u.(*ssa.FieldAddr); isAddr {
								return // computing a field's address reads nothing; its loads are judged
							}
							if st, isStore := u.(*ssa.Store); isStore && cellAddr(addrRoot(st.Addr)) == ssa.Value(al) && p.origin(st.Val) != ssa.Value(al) {
								return // overwriting (part of) the object reads nothing of what the parser left
							}
							if errV != nil && speculativeLoad(p, u, errV) {
								return
							}
							if errV != nil && overwrittenOnFailure(p, u, al, errV) {
								return
							}
							if w := checkUse(u, "parsed object"); w != "" {
								problems = append(problems, w)
							}
						}
					})
				}
			}
		}
		if len(problems) > 0 {
			if len(problems) > 3 {
				problems = append(problems[:3], fmt.Sprintf("… and %d more", len(problems)-3))
			}
			o.bad("F4", construct, p.instrPos(call), strings.Join(problems, "; "))
			return
		}
		o.ok("F4", construct, p.instrPos(call), "every use of the parse result lies on the success branch of its error test")
	})
}

// failsWithNilResult: the call returns (object, error) with a nil-able object, all its possible callees are repository
// functions, each has a failing return, and every failing return (error result not the constant nil) returns the
// constant nil for the object.
func failsWithNilResult(p *Prog, call *ssa.Call) bool {
	tup, ok := call.Type().(*types.Tuple)
	if !ok || tup.Len() != 2 || !isErrorType(tup.At(1).Type()) {
		return false
	}
	switch tup.At(0).Type().Underlying().(type) {
	case *types.Pointer, *types.Interface, *types.Map:
	default:
		return false
	}
	callees := p.Callees(call)
	if len(callees) == 0 {
		return false
	}
	anyFailing := 0
	for _, c := range callees {
		if !p.InUniverse(c) || c.Blocks == nil {
			return false
		}
		failing := 0
		okAll := true
		for _, b := range c.Blocks {
			ret, isRet := b.Instrs[len(b.Instrs)-1].(*ssa.Return)
			if !isRet || b == c.Recover || len(ret.Results) != 2 {
				continue
			}
			if ec, isC := returnedValue(ret, 1).(*ssa.Const); isC && ec.IsNil() {
				continue
			}
			// the error may be non-nil here
			if vc, isC := returnedValue(ret, 0).(*ssa.Const); isC && vc.IsNil() {
				failing++
			} else if ex, isEx := returnedValue(ret, 0).(*ssa.Extract); isEx && ex.Index == 0 {
				// `return inner(…)`-style propagation: judged by the inner call
				if ic, isCall := ex.Tuple.(*ssa.Call); isCall && failsWithNilResult(p, ic) {
					failing++
				} else {
					okAll = false
				}
			} else {
				okAll = false
			}
		}
		if !okAll {
			return false
		}
		anyFailing += failing
	}
	return anyFailing > 0
}

// speculativeLoad: u loads a plain field of the parsed object before the error test (`seq := ext.TransportSequence` hoisted
// above `if err != nil`), and the value loaded only takes effect where the error is known nil: every consumer is an
// instruction on the success branch, or a φ that receives it on an edge on which the error is nil. Reading a field of a
// local struct is memory-safe whatever the parser did.
func speculativeLoad(p *Prog, u ssa.Instruction, errV ssa.Value) bool {
	ld, ok := u.(*ssa.UnOp)
	if !ok || ld.Op != token.MUL {
		return false
	}
	if _, ok := ld.X.(*ssa.FieldAddr); !ok {
		return false
	}
	if _, isBasic := ld.Type().Underlying().(*types.Basic); !isBasic {
		return false
	}
	nilOnEdge := func(pred, succ *ssa.BasicBlock) bool {
		if p.nilnessAt(errV, pred) == -1 {
			return true
		}
		c := ifCond(pred)
		if c == nil || len(pred.Succs) != 2 || pred.Succs[0] == pred.Succs[1] {
			return false
		}
		ef := normFact(condFact{c, pred.Succs[0] == succ})
		bo, ok := ef.cond.(*ssa.BinOp)
		if !ok || (bo.Op != token.NEQ && bo.Op != token.EQL) {
			return false
		}
		var other ssa.Value
		if isNilConst(bo.Y) {
			other = bo.X
		} else if isNilConst(bo.X) {
			other = bo.Y
		} else {
			return false
		}
		return p.origin(other) == p.origin(errV) && (bo.Op == token.NEQ) != ef.truth
	}
	seen := map[ssa.Value]bool{}
	var okVal func(v ssa.Value, d int) bool
	okVal = func(v ssa.Value, d int) bool {
		if seen[v] || d > 6 {
			return true
		}
		seen[v] = true
		if v.Referrers() == nil {
			return true
		}
		for _, r := range *v.Referrers() {
			switch r := r.(type) {
			case *ssa.DebugRef:
			case *ssa.Phi:
				for i, e := range r.Edges {
					if e == v && !nilOnEdge(r.Block().Preds[i], r.Block()) {
						return false
					}
				}
				// the φ itself now carries the value only on success edges: its own consumers are free
			case *ssa.Convert:
				if !okVal(r, d+1) {
					return false
				}
			case *ssa.ChangeType:
				if !okVal(r, d+1) {
					return false
				}
			default:
				if p.nilnessAt(errV, r.Block()) != -1 {
					return false
				}
			}
		}
		return true
	}
	return okVal(ld, 0)
}

// overwrittenOnFailure: u loads a field of the parsed object al at a point that the failure branch of the error test also
// reaches, but every path from a block where the error is known non-nil to u passes a store to that same field
// (`if err != nil { ext.Seq = 0 }; use(ext.Seq)`): what is read after a failed parse is the value assigned, not what
// the parser left.
func overwrittenOnFailure(p *Prog, u ssa.Instruction, al *ssa.Alloc, errV ssa.Value) bool {
	ld, ok := u.(*ssa.UnOp)
	if !ok || ld.Op != token.MUL {
		return false
	}
	fa, ok := ld.X.(*ssa.FieldAddr)
	if !ok || cellAddr(addrRoot(fa)) != ssa.Value(al) {
		return false
	}
	fn := u.Parent()
	storeBlocks := map[*ssa.BasicBlock]bool{}
	instrsOf(fn, func(in ssa.Instruction) {
		if st, ok := in.(*ssa.Store); ok && cellAddr(addrRoot(st.Addr)) == ssa.Value(al) && sameFieldPath(st.Addr, fa) {
			storeBlocks[st.Block()] = true
		}
	})
	if len(storeBlocks) == 0 {
		return false
	}
	// blocks where the error is known non-nil and that are entered from a block where it is not: failure entries
	var work []*ssa.BasicBlock
	for _, b := range fn.Blocks {
		if p.nilnessAt(errV, b) == 1 {
			for _, pr := range b.Preds {
				if p.nilnessAt(errV, pr) != 1 {
					work = append(work, b)
					break
				}
			}
		}
	}
	if len(work) == 0 {
		return false
	}
	seen := map[*ssa.BasicBlock]bool{}
	for len(work) > 0 {
		b := work[len(work)-1]
		work = work[:len(work)-1]
		if seen[b] {
			continue
		}
		seen[b] = true
		if storeBlocks[b] {
			continue // (a store in the failure region; the load, if in the same block, follows the join anyway)
		}
		if b == u.Block() {
			return false
		}
		work = append(work, b.Succs...)
	}
	return true
}

// transitiveUsers: instructions using v directly (not through memory).
func transitiveUsers(p *Prog, v ssa.Value) []ssa.Instruction {
	var out []ssa.Instruction
	if v.Referrers() == nil {
		return nil
	}
	for _, r := range *v.Referrers() {
		if _, ok := r.(*ssa.DebugRef); ok {
			continue
		}
		// a comparison with nil is not a use of the pointee
		if bo, ok := r.(*ssa.BinOp); ok && (isNilConst(bo.X) || isNilConst(bo.Y)) {
			continue
		}
		// spill to a local cell: follow loads
		if st, ok := r.(*ssa.Store); ok && st.Val == v {
			if al, ok := cellAddr(st.Addr).(*ssa.Alloc); ok {
				for _, f := range allNested(al.Parent()) {
					instrsOf(f, func(in ssa.Instruction) {
						if u, ok := in.(*ssa.UnOp); ok && u.Op == token.MUL && cellAddr(u.X) == ssa.Value(al) {
							if p.origin(u) == v || len(p.storesToCell(al)) > 1 {
								out = append(out, transitiveUsers(p, u)...)
							}
						}
					})
				}
				continue
			}
		}
		if phi, ok := r.(*ssa.Phi); ok {
			_ = phi
			continue
		}
		out = append(out, r)
	}
	return out
}

// callerLenBound: v is a slice parameter of fn; returns an upper bound of its length established at every call site of
// fn, on the caller's path classes that are consistent with the callee's class `local` (a boolean parameter tested in
// the callee must not be contradicted by what the caller knows about the corresponding argument).
func (p *Prog) callerLenBound(fn *ssa.Function, v ssa.Value, local []condFact, depth int) (int64, bool, *ssa.BinOp) {
	par, ok := p.origin(v).(*ssa.Parameter)
	if !ok || depth <= 0 || par.Parent() != fn {
		return 0, false, nil
	}
	args, sites, closed := p.argsForParam(par)
	if !closed || len(args) == 0 {
		return 0, false, nil
	}
	paramIdx := func(q *ssa.Parameter) int {
		for i, x := range fn.Params {
			if x == q {
				return i
			}
		}
		return -1
	}
	worst := int64(-1)
	var wit *ssa.BinOp
	for i, site := range sites {
		if _, isGo := site.(*ssa.Go); isGo {
			return 0, false, nil
		}
		caller := site.Parent()
		argKey := p.pureKey(args[i])
		isArgLen := func(x ssa.Value) bool { return isLenOf(p, x, argKey) }
		in, _ := site.(ssa.Instruction)
		n := 0
		for _, cc := range p.factsAt(in.Block()) {
			// consistent with the callee's class?
			consistent := true
			for _, lf := range local {
				q, ok := p.origin(lf.cond).(*ssa.Parameter)
				if !ok || q.Parent() != fn {
					continue
				}
				k := paramIdx(q)
				if k < 0 || k >= len(site.Common().Args) {
					continue
				}
				a := site.Common().Args[k]
				if c, isC := p.origin(a).(*ssa.Const); isC && c.Value != nil {
					if (c.Value.String() == "true") != lf.truth {
						consistent = false
					}
					continue
				}
				for _, cf := range cc {
					if (cf.cond == a || p.origin(cf.cond) == p.origin(a)) && cf.truth != lf.truth {
						consistent = false
					}
				}
			}
			if !consistent {
				continue
			}
			n++
			ub, ok, w := p.upperBoundInClass(cc, isArgLen)
			if !ok {
				ub, ok, w = p.callerLenBound(caller, args[i], cc, depth-1)
			}
			if !ok {
				return 0, false, nil
			}
			if ub > worst {
				worst, wit = ub, w
			}
		}
		if n == 0 {
			continue // the helper's class is never entered from this site
		}
	}
	if worst < 0 {
		return 0, false, nil
	}
	return worst, true, wit
}

// constInClass evaluates v to an integer constant on the path class `class`: constants, sums and differences of such,
// and φs whose incoming edges that are consistent with the class (the predecessor's dominating facts and the branch
// taken into the φ's block do not contradict a fact of the class) all carry the same constant. This is what lets a
// limit computed as `limit := K; if rtx { limit -= 2 }` be read as K-2 on the rtx class and K on the other.
func (p *Prog) constInClass(v ssa.Value, class []condFact, depth int) (int64, bool) {
	if depth > 6 {
		return 0, false
	}
	vo := p.origin(v)
	if c, ok := constInt(vo); ok {
		return c, true
	}
	switch x := vo.(type) {
	case *ssa.Convert:
		return p.constInClass(x.X, class, depth+1)
	case *ssa.BinOp:
		a, ok1 := p.constInClass(x.X, class, depth+1)
		b, ok2 := p.constInClass(x.Y, class, depth+1)
		if !ok1 || !ok2 {
			return 0, false
		}
		switch x.Op {
		case token.ADD:
			return a + b, true
		case token.SUB:
			return a - b, true
		case token.MUL:
			return a * b, true
		}
	case *ssa.Phi:
		want := map[string]bool{}
		for _, f := range class {
			f = normFact(f)
			if k, ct, ok := p.canonFact(f.cond, f.truth); ok {
				want[k] = ct
			}
		}
		have := false
		var val int64
		for i, e := range x.Edges {
			pr := x.Block().Preds[i]
			facts := dominatingFacts(pr)
			if c := ifCond(pr); c != nil && pr.Succs[0] != pr.Succs[1] {
				facts = append(facts, condFact{c, pr.Succs[0] == x.Block()})
			}
			feasible := true
			for _, f := range facts {
				f = normFact(f)
				if k, ct, ok := p.canonFact(f.cond, f.truth); ok {
					if w, has := want[k]; has && w != ct {
						feasible = false
					}
				}
			}
			if !feasible {
				continue
			}
			c, ok := p.constInClass(e, class, depth+1)
			if !ok {
				return 0, false
			}
			if have && c != val {
				return 0, false
			}
			have, val = true, c
		}
		return val, have
	}
	return 0, false
}


// beliefBacked: `x, _ := newX(o.size)` discards the constructor's error under the belief that the argument was
// validated when the object o was built. The belief is backed when every argument of the call is a constant or a
// field of the receiver, and every function that builds an object of the receiver's type calls the same constructor on
// the same fields of the object it builds and returns when that call fails. Returns "" when backed, else the witness.
func beliefBacked(p *Prog, fn *ssa.Function, call *ssa.Call, user ssa.Instruction) string {
	sc := call.Call.StaticCallee()
	top := fn
	for top.Parent() != nil {
		top = top.Parent()
	}
	if sc == nil || top.Signature.Recv() == nil || len(fn.Params) == 0 && fn.Parent() == nil {
		return "" // not the receiver-field form: not decided
	}
	recvT := namedOf(deref(top.Signature.Recv().Type()))
	if recvT == nil {
		return ""
	}
	// the fields the arguments are loaded from
	var fields []*types.Var
	for _, a := range call.Call.Args {
		if _, isC := p.origin(a).(*ssa.Const); isC {
			fields = append(fields, nil)
			continue
		}
		u, ok := p.origin(a).(*ssa.UnOp)
		if !ok || u.Op != token.MUL {
			return ""
		}
		fa, ok := u.X.(*ssa.FieldAddr)
		if !ok || namedOf(deref(fa.X.Type())) == nil || namedOf(deref(fa.X.Type())).Obj() != recvT.Obj() {
			return ""
		}
		fields = append(fields, fieldOfAddr(fa))
	}
	// builders of the receiver type
	nBuilders, backed := 0, 0
	// errValue: the error a call hands back — the last element of a tuple, or the call itself
	errValue := func(c *ssa.Call) ssa.Value {
		if _, isTuple := c.Type().(*types.Tuple); isTuple {
			if fe := errExtract(c); fe != nil {
				return fe
			}
			return nil
		}
		if isErrorType(c.Type()) {
			return c
		}
		return nil
	}
	// failsWhenFails: g has a return that hands back a non-nil error where fe is known non-nil, or hands back fe itself
	failsWhenFails := func(g *ssa.Function, fe ssa.Value) bool {
		if fe == nil {
			return false
		}
		for _, b := range g.Blocks {
			ret, isRet := b.Instrs[len(b.Instrs)-1].(*ssa.Return)
			if !isRet || len(ret.Results) == 0 || b == g.Recover {
				continue
			}
			rv := returnedValue(ret, len(ret.Results)-1)
			if !isErrorType(rv.Type()) {
				continue
			}
			if p.origin(rv) == fe {
				return true
			}
			if p.nilnessAt(fe, b) == 1 {
				if cst, isC := rv.(*ssa.Const); !isC || !cst.IsNil() {
					return true
				}
			}
		}
		return false
	}
	isBuilt := func(v, built ssa.Value) bool {
		return v == built || p.origin(v) == built || cellAddr(v) == built
	}
	// checkedOn: g calls the constructor on the same fields of the object `built` and fails when it fails — itself,
	// or through a repository function it hands the object to and whose error it returns (n.validate())
	var checkedOn func(g *ssa.Function, built ssa.Value, depth int) bool
	checkedOn = func(g *ssa.Function, built ssa.Value, depth int) bool {
		res := false
		instrsOf(g, func(in ssa.Instruction) {
			c2, isCall := in.(*ssa.Call)
			if !isCall || res {
				return
			}
			h := c2.Call.StaticCallee()
			if h == nil {
				return
			}
			if h == sc && len(c2.Call.Args) == len(fields) {
				for i, a := range c2.Call.Args {
					if fields[i] == nil {
						continue
					}
					u, isU := p.origin(a).(*ssa.UnOp)
					if !isU || u.Op != token.MUL {
						return
					}
					fa, isFA := u.X.(*ssa.FieldAddr)
					if !isFA || fieldOfAddr(fa) != fields[i] || !isBuilt(addrRoot(fa), built) {
						return
					}
				}
				if failsWhenFails(g, errValue(c2)) {
					res = true
				}
				return
			}
			if depth > 0 && p.InUniverse(h) && h.Blocks != nil {
				for k, a := range c2.Call.Args {
					if k < len(h.Params) && isBuilt(a, built) && checkedOn(h, h.Params[k], depth-1) && failsWhenFails(g, errValue(c2)) {
						res = true
						return
					}
				}
			}
		})
		return res
	}
	for _, g := range p.Funcs {
		var built *ssa.Alloc
		instrsOf(g, func(in ssa.Instruction) {
			if al, ok := in.(*ssa.Alloc); ok && al.Heap {
				if n, isN := types.Unalias(deref(al.Type())).(*types.Named); isN && n.Obj() == recvT.Obj() {
					built = al
				}
			}
		})
		if built == nil {
			continue
		}
		nBuilders++
		if os.Getenv("IV_DEBUG") != "" {
			fmt.Fprintln(os.Stderr, "builder", funcKey(g), "of", recvT.Obj().Name())
		}
		ok := checkedOn(g, built, 2)
		if !ok {
			// a function that only assembles the object and returns it (defaultX()): the check is its callers' job
			returnsIt := false
			for _, b := range g.Blocks {
				if ret, isRet := b.Instrs[len(b.Instrs)-1].(*ssa.Return); isRet && len(ret.Results) == 1 && isBuilt(ret.Results[0], built) {
					returnsIt = true
				}
			}
			if sites, closed := p.staticCallSites(g); returnsIt && closed && len(sites) > 0 {
				ok = true
				for _, site := range sites {
					v, isVal := site.(ssa.Value)
					if !isVal || !checkedOn(site.Parent(), v, 2) {
						ok = false
					}
				}
			}
		}
		if ok {
			backed++
		}
	}
	if nBuilders > 0 && backed == nBuilders {
		return ""
	}
	return fmt.Sprintf("the object is used at %s although the constructor's error is discarded, and the function that builds a %s does not call %s on the same field(s) and fail when it fails: an argument the constructor rejects (it then returns nil) reaches this use", p.instrPos(user), recvT.Obj().Name(), sc.Name())
}

// f3LoopBounded: the slice expression sits in a loop whose condition compares len(base) with a constant.
func f3LoopBounded(p *Prog, x *ssa.Slice, baseKey string) bool {
	for _, body := range naturalLoops(x.Parent()) {
		if !body[x.Block()] {
			continue
		}
		for b := range body {
			bo, ok := ifCond(b).(*ssa.BinOp)
			if !ok {
				continue
			}
			for _, pr := range [][2]ssa.Value{{bo.X, bo.Y}, {bo.Y, bo.X}} {
				c, isCall := p.origin(pr[0]).(*ssa.Call)
				_, isConst := pr[1].(*ssa.Const)
				if isCall && isConst && builtinName(&c.Call) == "len" && p.pureKey(c.Call.Args[0]) == baseKey {
					return true
				}
			}
		}
	}
	return false
}
