package main

import (
	"encoding/json"
	"go/token"
	"go/types"

	"golang.org/x/tools/go/ssa"
	"flag"
	"fmt"
	"os"
	"regexp"
	"runtime/debug"
	"sort"
	"strconv"
	"strings"
	"time"
)

const verifDir = "/verif"

// An engine analyses one loaded program and returns obligations for one or more rules.
type engine struct {
	name  string
	rules []string
	run   func(p *Prog, o *obls)
}

var engines []*engine

func registerEngine(name string, rules []string, run func(p *Prog, o *obls)) {
	engines = append(engines, &engine{name, rules, run})
}

func engineForRule(rule string) *engine {
	for _, e := range engines {
		for _, r := range e.rules {
			if r == rule {
				return e
			}
		}
	}
	return nil
}

// sel selects obligations of one rule (optionally restricted by a key pattern) into a property.
type sel struct {
	rule  string
	match *regexp.Regexp // nil = all
	not   *regexp.Regexp // nil = none excluded
	opt   bool           // the rule is conditional on a code pattern (equality trigger, direct-mapped slot, injection …):
	// zero instances is a legitimate outcome, not an unresolved anchor
}

// so is an optional selector.
func so(rule string, pat ...string) sel {
	x := s(rule, pat...)
	x.opt = true
	return x
}

func (sl sel) selects(ob Obligation) bool {
	if ob.Rule != sl.rule {
		return false
	}
	if sl.match != nil && !sl.match.MatchString(ob.Key) {
		return false
	}
	if sl.not != nil && sl.not.MatchString(ob.Key) {
		return false
	}
	return true
}

// sx selects a rule except keys matching the pattern.
func sx(rule, notPat string) sel { return sel{rule: rule, not: regexp.MustCompile(notPat)} }

type propDef struct {
	id          string
	title       string
	explanation string
	sels        []sel
	assumptions []string
	notDecided  string
}

var props = map[string]*propDef{}

func s(rule string, pat ...string) sel {
	if len(pat) == 0 {
		return sel{rule: rule}
	}
	return sel{rule: rule, match: regexp.MustCompile(pat[0])}
}

type runCtx struct {
	tier    string
	results map[string][]Obligation // engine name → obligations, per program
}

// runEngines runs every engine needed for the rules and returns all their obligations.
func runEngines(p *Prog, rules []string) (list []Obligation, panics []string) {
	done := map[*engine]bool{}
	for _, r := range rules {
		e := engineForRule(r)
		if e == nil {
			panics = append(panics, "no engine for rule "+r)
			continue
		}
		if done[e] {
			continue
		}
		done[e] = true
		o := newObls(p)
		func() {
			defer func() {
				if rec := recover(); rec != nil {
					panics = append(panics, fmt.Sprintf("engine %s panicked: %v\n%s", e.name, rec, debug.Stack()))
				}
			}()
			e.run(p, o)
		}()
		list = append(list, o.list...)
	}
	sortObls(list)
	return list, panics
}

func selectObls(all []Obligation, sels []sel) []Obligation {
	var out []Obligation
	for _, ob := range all {
		for _, sl := range sels {
			if sl.selects(ob) {
				out = append(out, ob)
				break
			}
		}
	}
	return out
}

func rulesOf(pd *propDef) []string {
	m := map[string]bool{}
	for _, sl := range pd.sels {
		m[sl.rule] = true
	}
	var out []string
	for r := range m {
		out = append(out, r)
	}
	sort.Strings(out)
	return out
}

type controlResult struct {
	Rule     string   `json:"rule"`
	Fired    []string `json:"fired_on_bad"`
	Silent   int      `json:"good_twins_silent"`
	Problems []string `json:"problems,omitempty"`
}

// runControls loads /verif/fixtures and checks that each rule fires on its Bad constructs and is silent on Good ones.
func runControls(rules []string) ([]controlResult, []string) {
	fx, err := Load(verifDir+"/fixtures", nil, "", []string{"fixtures/fx"})
	if err != nil {
		return nil, []string{"fixtures: " + err.Error()}
	}
	fx.Fixture = true
	all, panics := runEngines(fx, rules)
	var problems []string
	problems = append(problems, panics...)
	var out []controlResult
	for _, r := range rules {
		cr := controlResult{Rule: r}
		tokRe := regexp.MustCompile("Bad" + r + "[A-Za-z0-9_]*")
		letterRe := regexp.MustCompile("Bad" + r[:1] + "([^0-9A-Za-z]|[a-z][A-Za-z0-9_]*|$)")
		fired := map[string]bool{}
		seenTok := map[string]bool{}
		for _, ob := range all {
			if ob.Rule != r {
				continue
			}
			tok := tokRe.FindString(ob.Key)
			isGood := goodFor(ob.Key, r)
			if tok == "" && ob.Verdict == Violated && letterRe.MatchString(ob.Key) {
				// a fixture named for the whole engine (BadQ): counts when it fires, is not required to fire for every rule
				cr.Fired = append(cr.Fired, ob.Key)
				continue
			}
			switch {
			case tok != "":
				seenTok[tok] = true
				if ob.Verdict == Violated {
					fired[tok] = true
					cr.Fired = append(cr.Fired, ob.Key)
				}
			case isGood && (ob.Verdict == Violated || ob.Verdict == Undecided):
				cr.Problems = append(cr.Problems, fmt.Sprintf("rule %s fires on good fixture %s: %s", r, ob.Key, ob.Witness))
			case isGood:
				cr.Silent++
			}
		}
		for _, tok := range sortedKeys(seenTok) {
			if !fired[tok] {
				cr.Problems = append(cr.Problems, fmt.Sprintf("rule %s did not fire on its bad fixture %s", r, tok))
			}
		}
		if len(cr.Fired) == 0 {
			cr.Problems = append(cr.Problems, fmt.Sprintf("rule %s did not fire on any Bad fixture", r))
		}
		if cr.Silent == 0 {
			cr.Problems = append(cr.Problems, fmt.Sprintf("rule %s has no discharged Good fixture", r))
		}
		problems = append(problems, cr.Problems...)
		out = append(out, cr)
	}
	return out, problems
}

func main() {
	prop := flag.String("p", "", "property id (C01…C20)")
	tier := flag.String("tier", "quick", "quick|thorough")
	dump := flag.String("dump", "", "debug dumps: closures|obls")
	replay := flag.String("replay", "", "violation file to re-evaluate")
	repo := flag.String("repo", "/repo", "repository root")
	rulesFlag := flag.String("rules", "", "with -dump obls: comma separated rules")
	noControls := flag.Bool("nocontrols", false, "skip fixtures (debug only)")
	mutant := flag.Bool("mutant", false, "internal: analyse a mutated copy given by -repo and print new violations only")
	fixturesOnly := flag.Bool("fixtures", false, "with -dump obls: analyse the fixtures instead of the repo")
	flag.Parse()
	if t := os.Getenv("VERIF_TIER"); t != "" && *tier == "quick" {
		*tier = t
	}
	seed, _ := strconv.Atoi(os.Getenv("VERIF_SEED"))

	if *replay != "" {
		os.Exit(doReplay(*repo, *replay))
	}
	if *dump != "" {
		var p *Prog
		var err error
		if *fixturesOnly {
			p, err = Load(verifDir+"/fixtures", nil, "", []string{"fixtures/fx"})
			if p != nil {
				p.Fixture = true
			}
		} else {
			p, err = Load(*repo, nil, "", nil)
		}
		if err != nil {
			fmt.Fprintln(os.Stderr, err)
			os.Exit(2)
		}
		doDump(p, *dump, *rulesFlag)
		return
	}
	if *prop == "scan" {
		os.Exit(scanAll(*repo))
	}
	pd := props[*prop]
	if pd == nil {
		fmt.Fprintf(os.Stderr, "unknown or unclaimed property %q\n", *prop)
		os.Exit(2)
	}
	if *mutant {
		os.Exit(mutantMode(pd, *repo))
	}
	start := time.Now()
	code := checkProperty(pd, *repo, *tier, seed, !*noControls, start)
	os.Exit(code)
}

func doDump(p *Prog, what, rules string) {
	switch what {
	case "locks":
		la := p.Locks()
		for _, f := range p.Funcs {
			if !strings.Contains(funcKey(f), rules) {
				continue
			}
			fmt.Printf("%s internal=%v syncLit=%v paramCalled=%v entry=%v sites=%d\n", funcKey(f), la.internal[f], la.syncLit[f] != nil, la.paramCalled[f], la.entry[f], len(la.sites[f]))
			for _, s := range la.sites[f] {
				fmt.Printf("   site %s in %s: %v\n", p.instrPos(s), funcKey(s.Parent()), la.info[s.Parent()].before[s])
			}
		}
	case "symbols":
		b, _ := json.MarshalIndent(p.inventory(), "", " ")
		fmt.Println(string(b))
	case "lookups":
		for _, f := range p.Funcs {
			instrsOf(f, func(in ssa.Instruction) {
				lk, ok := in.(*ssa.Lookup)
				if !ok {
					return
				}
				mt, ok := lk.X.Type().Underlying().(*types.Map)
				if !ok {
					return
				}
				fmt.Printf("%s %s commaok=%v val=%s  %s\n", p.instrPos(lk), funcKey(f), lk.CommaOk, mt.Elem().String(), p.pureKey(lk.X))
			})
		}
	case "divs":
		for _, f := range p.Funcs {
			instrsOf(f, func(in ssa.Instruction) {
				bo, ok := in.(*ssa.BinOp)
				if !ok || (bo.Op != token.QUO && bo.Op != token.REM) {
					return
				}
				if b, ok := bo.Type().Underlying().(*types.Basic); !ok || b.Info()&types.IsInteger == 0 {
					return
				}
				if _, isC := bo.Y.(*ssa.Const); isC {
					return
				}
				fmt.Printf("%s %s  %s by %s\n", p.instrPos(bo), funcKey(f), bo.Op, p.pureKey(bo.Y))
			})
		}
	case "renames":
		for _, n := range p.RenameNotes {
			fmt.Println(n)
		}
	case "closures":
		cl, odd := p.PktClosures()
		for _, c := range cl {
			nx := "-"
			if c.Next != nil {
				nx = c.Next.Name()
			}
			fmt.Printf("%-11s %-70s next=%s %s\n", c.Kind, funcKey(c.Fn), nx, p.Pos(c.Fn.Pos()))
		}
		for _, o := range odd {
			fmt.Printf("ODD conversion at %s in %s\n", p.instrPos(o), funcKey(o.Parent()))
		}
		for _, t := range p.InterceptorTypes() {
			fmt.Printf("interceptor %s\n", typeKey(t))
		}
	case "j6":
		probeJ6(p)
	case "orphans":
		// obligations no claimed property selects (debugging view: what the engines decide that nobody claims)
		var rl []string
		for _, e := range engines {
			rl = append(rl, e.rules...)
		}
		all, _ := runEngines(p, rl)
		for _, ob := range all {
			sel := false
			for _, pd := range props {
				for _, sl := range pd.sels {
					if sl.selects(ob) {
						sel = true
					}
				}
			}
			if !sel && ob.Verdict != "trivial" {
				fmt.Printf("%-10s %-95s %s\n", ob.Verdict, ob.Key, ob.Pos)
			}
		}
	case "obls":
		var rl []string
		if rules == "" {
			for _, e := range engines {
				rl = append(rl, e.rules...)
			}
		} else {
			rl = strings.Split(rules, ",")
		}
		all, panics := runEngines(p, rl)
		want := map[string]bool{}
		for _, r := range rl {
			want[r] = true
		}
		for _, ob := range all {
			if !want[ob.Rule] {
				continue
			}
			fmt.Printf("%-10s %-95s %s  %s\n", ob.Verdict, ob.Key, ob.Pos, ob.Witness)
		}
		for _, pn := range panics {
			fmt.Println("PANIC:", pn)
		}
	}
}

var goodTokRe = regexp.MustCompile(`Good([A-Z][0-9]*)`)

// goodFor: the construct is a good twin for rule r — its name contains Good<X> where X is the rule (GoodA1) or the
// rule's engine letter (GoodQ covers Q1..Q3).
func goodFor(key, r string) bool {
	for _, m := range goodTokRe.FindAllStringSubmatch(key, -1) {
		x := m[1]
		if x == r || (len(x) == 1 && strings.HasPrefix(r, x)) {
			return true
		}
	}
	return false
}

// scanAll (debug/regression aid, not a registered check): loads the tree once, runs every engine and reports per
// claimed property which obligations are violated or undecided. Writes no evidence.
func scanAll(repo string) int {
	known, _ := loadKnown(verifDir + "/known_findings.json")
	knownKey := map[string]bool{}
	for _, k := range known {
		if k.Status == "known" {
			knownKey[k.Key] = true
		}
	}
	p, err := Load(repo, nil, "", nil)
	if err != nil {
		fmt.Println("SCAN load error:", err)
		return 2
	}
	var rl []string
	for _, e := range engines {
		rl = append(rl, e.rules...)
	}
	all, panics := runEngines(p, rl)
	for _, pn := range panics {
		fmt.Println("PANIC:", pn)
	}
	var ids []string
	for id := range props {
		ids = append(ids, id)
	}
	sort.Strings(ids)
	var fired []string
	for _, id := range ids {
		pd := props[id]
		obls := selectObls(all, pd.sels)
		n := 0
		for _, ob := range obls {
			if (ob.Verdict == Violated && !knownKey[ob.Key]) || ob.Verdict == Undecided {
				fmt.Printf("%s %s %s at %s: %s\n", id, ob.Verdict, ob.Key, ob.Pos, ob.Witness)
				n++
			}
		}
		for _, sl := range pd.sels {
			c := 0
			for _, ob := range obls {
				if sl.selects(ob) {
					c++
				}
			}
			if c == 0 && !sl.opt {
				fmt.Printf("%s anchor-unresolved rule %s\n", id, sl.rule)
				n++
			}
		}
		if n > 0 || len(panics) > 0 {
			fired = append(fired, id)
		}
	}
	fmt.Printf("SCAN fired=%s renames=%d\n", strings.Join(fired, ","), len(p.RenameNotes))
	if len(fired) > 0 {
		return 1
	}
	return 0
}
