package main

// D8 — "after Close it fails with the closed error" holds for every outcome of the call, not just for the slow path. A
// function that tests the lifecycle signal through a closed predicate (a select with a case on the close channel that
// guards one blocking send is not such a contract: the paths around the send owe nothing) and
// returns a non-nil error on the closed branch documents that contract. Every successful return of that function — a
// return whose error result is the constant nil — must then be dominated by the test: a fast path that returns nil
// ahead of the test (no feedback in this batch, empty input) accepts calls on a closed object silently, and callers
// that rely on the error to stop feeding it never see it.

import (
	"fmt"
	"go/token"
	"go/types"
	"strings"

	"golang.org/x/tools/go/ssa"
)

func d8ClosedTests(p *Prog, o *obls, isLifecycle func(map[string]bool) bool) {
	n := 0
	// pass 1 finds the functions that test the predicate themselves; pass 2 adds the functions that delegate to one
	// of those and return its error (WriteRTCP → writeRTCP): there the call is the test
	instances := map[*ssa.Function]bool{}
	for pass := 1; pass <= 2; pass++ {
		for _, fn := range p.Funcs {
			if fn.Blocks == nil || (pass == 2 && instances[fn]) {
				continue
			}
			res := fn.Signature.Results()
			if res.Len() == 0 || !isErrorType(res.At(res.Len()-1).Type()) {
				continue
			}
			ei := res.Len() - 1
			// returnsError: control entering block b returns a non-nil error without branching
			returnsError := func(b *ssa.BasicBlock) bool {
				for i := 0; i < 3 && b != nil; i++ {
					switch last := b.Instrs[len(b.Instrs)-1].(type) {
					case *ssa.Return:
						if ei >= len(last.Results) {
							return false
						}
						if c, ok := returnedValue(last, ei).(*ssa.Const); ok && c.IsNil() {
							return false
						}
						return true
					case *ssa.Jump:
						b = b.Succs[0]
					default:
						return false
					}
				}
				return false
			}
			type testPoint struct {
				at   ssa.Instruction
				what string
			}
			var tests []testPoint
			for _, b := range fn.Blocks {
				// (a) if x.isClosed() { return ErrClosed }
				if c := ifCond(b); c != nil && len(b.Succs) == 2 {
					for i := 0; i < 2; i++ {
						f := normFact(condFact{c, i == 0})
						call, ok := f.cond.(*ssa.Call)
						if !ok || !f.truth {
							continue
						}
						sc := call.Call.StaticCallee()
						if sc == nil || !p.InUniverse(sc) || !isClosedPredicate(p, sc, isLifecycle) {
							continue
						}
						if returnsError(b.Succs[i]) {
							tests = append(tests, testPoint{b.Instrs[len(b.Instrs)-1], "the test of " + sc.Name() + "()"})
						}
					}
				}
			}
			if pass == 2 {
				instrsOf(fn, func(in ssa.Instruction) {
					call, ok := in.(*ssa.Call)
					if !ok {
						return
					}
					sc := call.Call.StaticCallee()
					if sc == nil || !instances[sc] {
						return
					}
					// its error is what this function returns on some path
					var ev ssa.Value = call
					if fe := errExtract(call); fe != nil {
						ev = fe
					}
					for _, b := range fn.Blocks {
						if ret, ok := b.Instrs[len(b.Instrs)-1].(*ssa.Return); ok && ei < len(ret.Results) {
							if p.backwardReaches(returnedValue(ret, ei), func(v ssa.Value) bool { return v == ev }) {
								tests = append(tests, testPoint{call, "the call of " + sc.Name() + " (which tests the closed predicate)"})
								return
							}
						}
					}
				})
			}
			if len(tests) == 0 {
				continue
			}
			if pass == 1 {
				instances[fn] = true
			}
			n++
			var bad []string
			for _, b := range fn.Blocks {
				ret, ok := b.Instrs[len(b.Instrs)-1].(*ssa.Return)
				if !ok || b == fn.Recover || ei >= len(ret.Results) {
					continue
				}
				if c, ok := returnedValue(ret, ei).(*ssa.Const); !ok || !c.IsNil() {
					continue
				}
				dominated := false
				for _, t := range tests {
					if t.at.Block() == b || t.at.Block().Dominates(b) {
						dominated = true
					}
				}
				if !dominated {
					bad = append(bad, p.instrPos(ret))
				}
			}
			key := funcKey(fn) + ":closed-test"
			if len(bad) > 0 {
				o.bad("D8", key, p.instrPos(tests[0].at), fmt.Sprintf("the function fails with an error once the object is closed (%s at %s), but the successful return at %s can be reached without passing that test: after Close such calls are accepted silently instead of failing with the closed error", tests[0].what, p.instrPos(tests[0].at), strings.Join(dedupe(bad), ", ")))
			} else {
				o.ok("D8", key, p.instrPos(tests[0].at), "every successful return is dominated by "+tests[0].what)
			}
		}
	}
	o.ok("D8", "inspected", "-", fmt.Sprintf("%d function(s) that fail with an error on the closed branch of a lifecycle test", n))
}

// returnedValue: result i of the return; in a function with defers the results travel through a local cell that is
// stored just before `rundefers` — the value stored last in the returning block is what is returned.
func returnedValue(ret *ssa.Return, i int) ssa.Value {
	v := ret.Results[i]
	u, ok := v.(*ssa.UnOp)
	if !ok || u.Op != token.MUL {
		return v
	}
	al, ok := u.X.(*ssa.Alloc)
	if !ok {
		return v
	}
	instrs := ret.Block().Instrs
	for k := len(instrs) - 1; k >= 0; k-- {
		if st, ok := instrs[k].(*ssa.Store); ok && st.Addr == ssa.Value(al) {
			return st.Val
		}
	}
	return v
}

// D9 — Close marks the object closed whatever else it does. A Close method that closes the lifecycle channel must do
// so (or find it already closed) on every path to a return: a return taken before the channel is closed — another
// component's Close failed first — leaves an object whose parts are torn down while its closed predicate still says
// "open", so the next call passes the closed test and runs into the torn-down parts (send on a closed channel).
// Returns that can only be reached through the failure branch of a repository call that never fails (every return of
// the callee has a nil error) are not paths.
func d9CloseMarks(p *Prog, o *obls, isLifecycle func(map[string]bool) bool, closes []closeSite) {
	n := 0
	alwaysNil := func(c *ssa.Function) bool {
		if c == nil || c.Blocks == nil || !p.InUniverse(c) {
			return false
		}
		res := c.Signature.Results()
		if res.Len() == 0 || !isErrorType(res.At(res.Len()-1).Type()) {
			return false
		}
		for _, b := range c.Blocks {
			ret, ok := b.Instrs[len(b.Instrs)-1].(*ssa.Return)
			if !ok || b == c.Recover {
				continue
			}
			if cst, ok := returnedValue(ret, res.Len()-1).(*ssa.Const); !ok || !cst.IsNil() {
				return false
			}
		}
		return true
	}
	for _, cs := range closes {
		fn := cs.fn
		if fn.Name() != "Close" || fn.Signature.Recv() == nil || !isLifecycle(cs.ids) {
			continue
		}
		n++
		// infeasible failure branches
		dead := map[*ssa.BasicBlock]bool{}
		for _, b := range fn.Blocks {
			c := ifCond(b)
			if c == nil || len(b.Succs) != 2 {
				continue
			}
			for i := 0; i < 2; i++ {
				f := normFact(condFact{c, i == 0})
				bo, ok := f.cond.(*ssa.BinOp)
				if !ok || (bo.Op != token.NEQ && bo.Op != token.EQL) || (bo.Op == token.NEQ) != f.truth {
					continue
				}
				var other ssa.Value
				if isNilConst(bo.Y) {
					other = bo.X
				} else if isNilConst(bo.X) {
					other = bo.Y
				} else {
					continue
				}
				var call *ssa.Call
				switch x := p.origin(other).(type) {
				case *ssa.Call:
					call = x
				case *ssa.Extract:
					call, _ = x.Tuple.(*ssa.Call)
				}
				if call == nil {
					continue
				}
				if sc := call.Call.StaticCallee(); sc != nil && alwaysNil(sc) {
					dead[b.Succs[i]] = true
				}
			}
		}
		isMark := func(in ssa.Instruction) bool {
			if in == ssa.Instruction(cs.call) {
				return true
			}
			if sel, ok := in.(*ssa.Select); ok {
				// `select { case <-x.close: default: close(x.close) }` — the closed test written out
				for _, st := range sel.States {
					if st.Dir == types.RecvOnly && isLifecycle(chanIdents(p, st.Chan)) {
						return true
					}
				}
			}
			if iff, ok := in.(*ssa.If); ok {
				f := normFact(condFact{iff.Cond, true})
				if call, ok := f.cond.(*ssa.Call); ok {
					if sc := call.Call.StaticCallee(); sc != nil && p.InUniverse(sc) && isClosedPredicate(p, sc, isLifecycle) {
						return true
					}
				}
			}
			return false
		}
		var bad []string
		entry := fn.Blocks[0].Instrs[0]
		for _, b := range fn.Blocks {
			ret, ok := b.Instrs[len(b.Instrs)-1].(*ssa.Return)
			if !ok || b == fn.Recover {
				continue
			}
			isDead := false
			for d := range dead {
				if d == b || d.Dominates(b) {
					isDead = true
				}
			}
			if isDead {
				continue
			}
			if isMark(entry) {
				continue
			}
			if pathAvoiding(entry, ret, isMark) {
				bad = append(bad, p.instrPos(ret))
			}
		}
		key := funcKey(fn) + ":marks-closed"
		if len(bad) > 0 {
			o.bad("D9", key, p.instrPos(cs.call), fmt.Sprintf("the return at %s is reached without closing the lifecycle channel (closed at %s) or finding it closed: the object is partly torn down but still reports open, so the next call passes its closed test", strings.Join(dedupe(bad), ", "), p.instrPos(cs.call)))
		} else {
			o.ok("D9", key, p.instrPos(cs.call), "every return follows the close of the lifecycle channel or the test that finds it closed")
		}
	}
	o.ok("D9", "inspected", "-", fmt.Sprintf("%d Close method(s) that close a lifecycle channel", n))
}
