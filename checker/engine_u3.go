package main

// U3 — everything that dirties sets the dirty flag. A copy derived from a container (the list of SSRCs collected from
// the stream table) that is rebuilt only when a flag says the container changed is current only if *every* mutation
// of the container raises the flag. A removal that does not (Unbind deletes the stream, only Bind sets the flag)
// leaves the copy — and whatever is done per entry of it: a PLI per tick — with the removed entry until some unrelated
// change happens to refresh it.
//
// A dirty flag is a bool or atomic.Bool field that some function tests and lowers (Swap(false), CompareAndSwap(true,
// false), or a store of false in the tested branch), and in whose raised branch containers of the same object are read
// (sync.Map.Range/Load, loads of map or slice fields — in the branch itself or in function literals created there).
// Every function of the repository that mutates one of those containers (sync.Map Store/Delete/LoadOrStore/
// LoadAndDelete/Swap/CompareAndSwap/CompareAndDelete/Clear, a map assignment or delete, a store to the field) raises
// the flag itself, unless it works on an object it has just built.

import (
	"fmt"
	"go/token"
	"go/types"
	"sort"
	"strings"

	"golang.org/x/tools/go/ssa"
)

func init() {
	registerEngine("U3", []string{"U3"}, runEngineU3)
}

func atomicBoolOp(c *ssa.CallCommon) (op string, fa *ssa.FieldAddr) {
	sc := c.StaticCallee()
	if sc == nil || sc.Pkg == nil || sc.Pkg.Pkg.Path() != "sync/atomic" || sc.Signature.Recv() == nil || len(c.Args) == 0 {
		return "", nil
	}
	if !strings.HasSuffix(typeKey(deref(sc.Signature.Recv().Type())), "atomic.Bool") {
		return "", nil
	}
	fa, _ = c.Args[0].(*ssa.FieldAddr)
	return sc.Name(), fa
}

func syncMapOp(c *ssa.CallCommon) (op string, fa *ssa.FieldAddr) {
	sc := c.StaticCallee()
	if sc == nil || sc.Pkg == nil || sc.Pkg.Pkg.Path() != "sync" || sc.Signature.Recv() == nil || len(c.Args) == 0 {
		return "", nil
	}
	if typeKey(deref(sc.Signature.Recv().Type())) != "sync.Map" {
		return "", nil
	}
	fa, _ = c.Args[0].(*ssa.FieldAddr)
	return sc.Name(), fa
}

func constBool(v ssa.Value) (bool, bool) {
	c, ok := v.(*ssa.Const)
	if !ok || c.Value == nil {
		return false, false
	}
	switch c.Value.String() {
	case "true":
		return true, true
	case "false":
		return false, true
	}
	return false, false
}

func runEngineU3(p *Prog, o *obls) {
	type flagInfo struct {
		key        string
		testedAt   string
		containers map[*types.Var]string
	}
	flags := map[*types.Var]*flagInfo{}
	var order []*types.Var
	for _, fn := range p.Funcs {
		if fn.Blocks == nil || !p.InUniverse(fn) {
			continue
		}
		for _, b := range fn.Blocks {
			c := ifCond(b)
			if c == nil || len(b.Succs) != 2 {
				continue
			}
			f := normFact(condFact{c, true})
			var flagFA *ssa.FieldAddr
			lowered := false
			switch x := f.cond.(type) {
			case *ssa.Call:
				op, fa := atomicBoolOp(&x.Call)
				if fa == nil {
					continue
				}
				flagFA = fa
				switch op {
				case "Swap":
					if v, ok := constBool(x.Call.Args[1]); ok && !v {
						lowered = true
					}
				case "CompareAndSwap":
					if v, ok := constBool(x.Call.Args[2]); ok && !v {
						lowered = true
					}
				case "Load":
				default:
					continue
				}
			case *ssa.UnOp:
				if x.Op != token.MUL {
					continue
				}
				fa, ok := x.X.(*ssa.FieldAddr)
				if !ok {
					continue
				}
				if bt, ok := deref(fa.Type()).Underlying().(*types.Basic); !ok || bt.Kind() != types.Bool {
					continue
				}
				flagFA = fa
			default:
				continue
			}
			raised := b.Succs[0]
			if !f.truth {
				raised = b.Succs[1]
			}
			if len(raised.Preds) != 1 {
				continue
			}
			flagVar := fieldOfAddr(flagFA)
			objKey := p.pureKey(flagFA.X)
			// the raised branch: lowers the flag? reads which containers of the same object?
			conts := map[*types.Var]string{}
			var scan func(g *ssa.Function, blocks []*ssa.BasicBlock)
			scan = func(g *ssa.Function, blocks []*ssa.BasicBlock) {
				for _, rb := range blocks {
					for _, in := range rb.Instrs {
						switch x := in.(type) {
						case *ssa.Store:
							if fa, ok := x.Addr.(*ssa.FieldAddr); ok && fieldOfAddr(fa) == flagVar {
								if v, ok := constBool(x.Val); ok && !v {
									lowered = true
								}
							}
						case *ssa.MakeClosure:
							if lit, ok := x.Fn.(*ssa.Function); ok {
								scan(lit, lit.Blocks)
							}
						case *ssa.UnOp:
							if fa, ok := x.X.(*ssa.FieldAddr); ok && x.Op == token.MUL {
								switch deref(fa.Type()).Underlying().(type) {
								case *types.Map, *types.Slice:
									if g != fn || p.pureKey(fa.X) == objKey {
										conts[fieldOfAddr(fa)] = fieldKeyAddr(fa)
									}
								}
							}
						}
						if ci, ok := in.(ssa.CallInstruction); ok {
							if op, fa := atomicBoolOp(ci.Common()); fa != nil && fieldOfAddr(fa) == flagVar && op == "Store" {
								if v, ok := constBool(ci.Common().Args[1]); ok && !v {
									lowered = true
								}
							}
							if op, fa := syncMapOp(ci.Common()); fa != nil && (op == "Range" || op == "Load") {
								conts[fieldOfAddr(fa)] = fieldKeyAddr(fa)
							}
						}
					}
				}
			}
			var region []*ssa.BasicBlock
			for _, rb := range fn.Blocks {
				if raised.Dominates(rb) {
					region = append(region, rb)
				}
			}
			scan(fn, region)
			delete(conts, flagVar)
			if !lowered || len(conts) == 0 || flagVar == nil {
				continue
			}
			fi := flags[flagVar]
			if fi == nil {
				fi = &flagInfo{key: fieldKeyAddr(flagFA), testedAt: p.instrPos(b.Instrs[len(b.Instrs)-1]), containers: map[*types.Var]string{}}
				flags[flagVar] = fi
				order = append(order, flagVar)
			}
			for v, k := range conts {
				fi.containers[v] = k
			}
		}
	}
	// a dirty flag is only ever assigned constants: a flag computed from the data (`c.mixed = c.mixed || d != first`)
	// is a summary of the container, kept by the code that changes it — not a request to rebuild
	for _, fn := range p.Funcs {
		if fn.Blocks == nil {
			continue
		}
		instrsOf(fn, func(in ssa.Instruction) {
			st, ok := in.(*ssa.Store)
			if !ok {
				return
			}
			fa, ok := st.Addr.(*ssa.FieldAddr)
			if !ok || flags[fieldOfAddr(fa)] == nil {
				return
			}
			if _, isConst := constBool(st.Val); !isConst {
				delete(flags, fieldOfAddr(fa))
			}
		})
	}
	kept := order[:0]
	for _, fv := range order {
		if flags[fv] != nil {
			kept = append(kept, fv)
		}
	}
	order = kept
	sort.Slice(order, func(i, j int) bool { return flags[order[i]].key < flags[order[j]].key })
	for _, fv := range order {
		fi := flags[fv]
		var bad []string
		nMut := 0
		for _, fn := range p.Funcs {
			if fn.Blocks == nil || !p.InUniverse(fn) {
				continue
			}
			raises := false
			var muts []string
			instrsOf(fn, func(in ssa.Instruction) {
				switch x := in.(type) {
				case *ssa.Store:
					if fa, ok := x.Addr.(*ssa.FieldAddr); ok {
						if fieldOfAddr(fa) == fv {
							if v, ok := constBool(x.Val); ok && v {
								raises = true
							}
						}
						if k, ok := fi.containers[fieldOfAddr(fa)]; ok && !freshlyBuilt(p, fa, fn) {
							muts = append(muts, fmt.Sprintf("%s assigned at %s", fieldName(k), p.instrPos(in)))
						}
					}
				case *ssa.MapUpdate:
					if u, ok := p.origin(x.Map).(*ssa.UnOp); ok && u.Op == token.MUL {
						if fa, ok := u.X.(*ssa.FieldAddr); ok {
							if k, ok := fi.containers[fieldOfAddr(fa)]; ok && !freshlyBuilt(p, fa, fn) {
								muts = append(muts, fmt.Sprintf("%s[…] assigned at %s", fieldName(k), p.instrPos(in)))
							}
						}
					}
				}
				ci, ok := in.(ssa.CallInstruction)
				if !ok {
					return
				}
				if op, fa := atomicBoolOp(ci.Common()); fa != nil && fieldOfAddr(fa) == fv {
					if op == "Store" || op == "Swap" {
						if v, ok := constBool(ci.Common().Args[1]); ok && v {
							raises = true
						}
					}
					if op == "CompareAndSwap" {
						if v, ok := constBool(ci.Common().Args[2]); ok && v {
							raises = true
						}
					}
				}
				if op, fa := syncMapOp(ci.Common()); fa != nil {
					if k, ok := fi.containers[fieldOfAddr(fa)]; ok && !freshlyBuilt(p, fa, fn) {
						switch op {
						case "Store", "Delete", "LoadOrStore", "LoadAndDelete", "Swap", "CompareAndSwap", "CompareAndDelete", "Clear":
							muts = append(muts, fmt.Sprintf("%s.%s at %s", fieldName(k), op, p.instrPos(in)))
						}
					}
				}
				if builtinName(ci.Common()) == "delete" && len(ci.Common().Args) > 0 {
					if u, ok := p.origin(ci.Common().Args[0]).(*ssa.UnOp); ok && u.Op == token.MUL {
						if fa, ok := u.X.(*ssa.FieldAddr); ok {
							if k, ok := fi.containers[fieldOfAddr(fa)]; ok && !freshlyBuilt(p, fa, fn) {
								muts = append(muts, fmt.Sprintf("delete from %s at %s", fieldName(k), p.instrPos(in)))
							}
						}
					}
				}
			})
			if len(muts) == 0 {
				continue
			}
			nMut++
			if !raises {
				sort.Strings(muts)
				bad = append(bad, fmt.Sprintf("%s (%s) does not raise the flag", shortCallee(funcKey(fn)), strings.Join(dedupe(muts), ", ")))
			}
		}
		var cs []string
		for _, k := range fi.containers {
			cs = append(cs, fieldName(k))
		}
		sort.Strings(cs)
		key := fi.key + ":dirty-flag"
		if len(bad) > 0 {
			sort.Strings(bad)
			o.bad("U3", key, fi.testedAt, fmt.Sprintf("what is derived from %s is rebuilt only when this flag is raised (test at %s), but %s: the derived copy keeps what was removed (or lacks what was added) until an unrelated change refreshes it", strings.Join(cs, ", "), fi.testedAt, strings.Join(bad, "; ")))
		} else {
			o.ok("U3", key, fi.testedAt, fmt.Sprintf("every one of the %d function(s) that mutate %s raises the flag", nMut, strings.Join(cs, ", ")))
		}
	}
	o.ok("U3", "inspected", "-", fmt.Sprintf("%d dirty flag(s)", len(order)))
}
