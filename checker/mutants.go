package main

// runMutants is filled in later (thorough-tier sensitivity controls, DESIGN.md §2.5).
func runMutants(pd *propDef, rules []string) any { return map[string]any{"status": "catalogue not built yet"} }
