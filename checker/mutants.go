package main

import (
	"encoding/json"
	"fmt"
	"os"
	"os/exec"
	"path/filepath"
	"sort"
	"strings"
	"sync"
)

// Mutant controls (thorough tier, DESIGN.md §2.5): every catalogue entry that expects one of this property's rules to
// fire is applied to a scratch copy of /repo's working tree (outside /repo and /verif), analysed by a separate ivcheck
// process, and the copy is removed straight afterwards. Results are sensitivity evidence; they never change the exit code.

type mutantExpect struct {
	Property string `json:"property"`
	Rule     string `json:"rule"`
}

type mutantEntry struct {
	ID     string         `json:"id"`
	Patch  string         `json:"patch"`
	Expect []mutantExpect `json:"expect"`
	Source string         `json:"source"`
	What   string         `json:"what"`
}

type mutantResult struct {
	ID      string   `json:"id"`
	Source  string   `json:"source"`
	What    string   `json:"what"`
	Expect  []string `json:"expected_rules"`
	Status  string   `json:"status"` // fired | missed | skipped
	Fired   []string `json:"fired_keys,omitempty"`
	Comment string   `json:"comment,omitempty"`
}

func runMutants(pd *propDef, rules []string, repo string) any {
	b, err := os.ReadFile(verifDir + "/mutants/catalog.json")
	if err != nil {
		return map[string]any{"status": "no catalogue: " + err.Error()}
	}
	var cat []mutantEntry
	if err := json.Unmarshal(b, &cat); err != nil {
		return map[string]any{"status": "bad catalogue: " + err.Error()}
	}
	var mine []mutantEntry
	for _, m := range cat {
		for _, e := range m.Expect {
			if e.Property == pd.id {
				mine = append(mine, m)
				break
			}
		}
	}
	sort.Slice(mine, func(i, j int) bool { return mine[i].ID < mine[j].ID })
	results := make([]mutantResult, len(mine))
	sem := make(chan struct{}, 8)
	var wg sync.WaitGroup
	self, _ := os.Executable()
	for i, m := range mine {
		wg.Add(1)
		go func(i int, m mutantEntry) {
			defer wg.Done()
			sem <- struct{}{}
			defer func() { <-sem }()
			results[i] = runOneMutant(self, pd.id, repo, m)
		}(i, m)
	}
	wg.Wait()
	fired, missed, skipped := 0, 0, 0
	for _, r := range results {
		switch r.Status {
		case "fired":
			fired++
		case "missed":
			missed++
		default:
			skipped++
		}
	}
	return map[string]any{"catalogue": len(cat), "applicable": len(mine), "fired": fired, "missed": missed, "skipped": skipped, "results": results}
}

func runOneMutant(self, prop, repo string, m mutantEntry) mutantResult {
	res := mutantResult{ID: m.ID, Source: m.Source, What: m.What}
	want := map[string]bool{}
	for _, e := range m.Expect {
		if e.Property == prop {
			want[e.Rule] = true
			res.Expect = append(res.Expect, e.Rule)
		}
	}
	tmp, err := os.MkdirTemp("", "ivmutant-")
	if err != nil {
		res.Status, res.Comment = "skipped", err.Error()
		return res
	}
	defer os.RemoveAll(tmp)
	dst := filepath.Join(tmp, "repo")
	// copy the working tree without .git
	if out, err := exec.Command("rsync", "-a", "--exclude", ".git", repo+"/", dst+"/").CombinedOutput(); err != nil {
		res.Status, res.Comment = "skipped", "copy failed: "+string(out)
		return res
	}
	patch := filepath.Join(verifDir, m.Patch)
	if out, err := exec.Command("patch", "-p1", "-s", "-f", "-d", dst, "-i", patch).CombinedOutput(); err != nil {
		res.Status, res.Comment = "skipped", "patch does not apply to the current tree: "+firstLine(string(out))
		return res
	}
	cmd := exec.Command(self, "-p", prop, "-repo", dst, "-mutant")
	cmd.Env = os.Environ()
	out, _ := cmd.CombinedOutput()
	for _, line := range strings.Split(string(out), "\n") {
		if strings.HasPrefix(line, "MUTANT-VIOLATED ") {
			key := strings.TrimPrefix(line, "MUTANT-VIOLATED ")
			if want[ruleOfKey(key)] {
				res.Fired = append(res.Fired, key)
			}
		}
		if strings.HasPrefix(line, "MUTANT-FATAL ") {
			res.Comment = line
		}
	}
	if len(res.Fired) > 0 {
		res.Status = "fired"
	} else {
		res.Status = "missed"
	}
	return res
}

func firstLine(s string) string {
	if i := strings.Index(s, "\n"); i >= 0 {
		return s[:i]
	}
	return s
}

// mutantMode analyses one property on the given tree and prints the new violations; no evidence, no controls.
func mutantMode(pd *propDef, repo string) int {
	p, err := Load(repo, nil, "", nil)
	if err != nil {
		fmt.Println("MUTANT-FATAL load:", err)
		return 2
	}
	all, panics := runEngines(p, rulesOf(pd))
	for _, pn := range panics {
		fmt.Println("MUTANT-FATAL", firstLine(pn))
	}
	known, _ := loadKnown(verifDir + "/known_findings.json")
	kn := map[string]bool{}
	for _, k := range known {
		if k.Status == "known" {
			kn[k.Key] = true
		}
	}
	for _, ob := range selectObls(all, pd.sels) {
		if (ob.Verdict == Violated || ob.Verdict == Undecided) && !kn[ob.Key] {
			fmt.Println("MUTANT-VIOLATED " + ob.Key)
		}
	}
	return 0
}
