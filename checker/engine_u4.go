package main

import (
	"fmt"
	"go/token"
	"go/types"
	"sort"
	"strings"

	"golang.org/x/tools/go/ssa"
)

// U4 — a memo is as old as what it was computed from. A field that a method fills "on first use" — a store into the
// field (or an element of it) that is control dependent on a test of that same field against nil / length zero — is a
// cache of whatever the fill reads from the other fields of the object. The cache is current only as long as those
// fields are: every function of the repository that writes one of them (a store into the field or a part of it, a map
// update, a mutating method called on it) on an object that is not being constructed also resets the cache (stores
// into the cached field, or calls a function that does), or the next reader gets the answer to the previous question.
//
// The rule has no instance on today's tree (nothing is memoised); the fixture pair keeps it armed.
func init() {
	registerEngine("U4", []string{"U4"}, runEngineU4)
}

type u4memo struct {
	fn      *ssa.Function
	cache   *types.Var
	key     string
	at      string
	sources map[*types.Var]string
}

func runEngineU4(p *Prog, o *obls) {
	// field behind an address that is a field of fn's receiver (or an element of such a field)
	recvField := func(fn *ssa.Function, addr ssa.Value) (*ssa.FieldAddr, bool) {
		for i := 0; i < 4; i++ {
			switch a := addr.(type) {
			case *ssa.IndexAddr:
				addr = a.X
				if u, ok := addr.(*ssa.UnOp); ok && u.Op == token.MUL {
					addr = u.X // element of a slice held in the field
				}
				continue
			case *ssa.FieldAddr:
				if len(fn.Params) > 0 && p.origin(a.X) == ssa.Value(fn.Params[0]) {
					return a, true
				}
				addr = a.X
				continue
			}
			break
		}
		return nil, false
	}
	var memos []u4memo
	for _, fn := range p.Funcs {
		if fn.Blocks == nil || fn.Signature.Recv() == nil || !p.InUniverse(fn) || isOptionClosure(fn) || strings.HasPrefix(strings.ToLower(fn.Name()), "new") {
			continue
		}
		var pdom map[*ssa.BasicBlock]map[*ssa.BasicBlock]bool
		done := map[*types.Var]bool{}
		instrsOf(fn, func(in ssa.Instruction) {
			st, ok := in.(*ssa.Store)
			if !ok {
				return
			}
			cfa, ok := recvField(fn, st.Addr)
			if !ok {
				return
			}
			cache := fieldOfAddr(cfa)
			if cache == nil || done[cache] {
				return
			}
			if _, isConst := st.Val.(*ssa.Const); isConst {
				return
			}
			if pdom == nil {
				pdom = postDominators(fn)
			}
			// the first-use test: a controlling comparison of (a load out of) the same field with nil, or of its
			// length with zero
			var missBlocks []*ssa.BasicBlock
			for cb := range transitiveControlDeps(fn, pdom, st.Block()) {
				b2, ok := ifCond(cb).(*ssa.BinOp)
				if !ok || b2.Op != token.EQL && b2.Op != token.NEQ {
					continue
				}
				probe := func(x, y ssa.Value) bool {
					c, ok := y.(*ssa.Const)
					if !ok {
						return false
					}
					if c.Value != nil {
						// len(field) == 0
						if n, isInt := constInt(y); !isInt || n != 0 {
							return false
						}
						call, ok := x.(*ssa.Call)
						if !ok {
							return false
						}
						if b, ok := call.Call.Value.(*ssa.Builtin); !ok || b.Name() != "len" {
							return false
						}
						x = call.Call.Args[0]
					}
					u, ok := x.(*ssa.UnOp)
					if !ok || u.Op != token.MUL {
						return false
					}
					fa, ok := recvField(fn, u.X)
					return ok && fieldOfAddr(fa) == cache
				}
				if probe(b2.X, b2.Y) || probe(b2.Y, b2.X) {
					missBlocks = append(missBlocks, cb)
				}
			}
			if len(missBlocks) == 0 {
				return
			}
			// what the cached value is computed from: the receiver's fields in the backward slice of the stored value and
			// of the tests inside the fill region (blocks control dependent on the first-use test). A value that also
			// depends on an argument of the call is not a function of the object's state: lazy creation, not a memo.
			sources := map[*types.Var]string{}
			fromArg := false
			collect := func(v ssa.Value) bool {
				switch x := v.(type) {
				case *ssa.Parameter:
					if x != fn.Params[0] {
						fromArg = true
					}
				case *ssa.FieldAddr:
					if p.origin(x.X) == ssa.Value(fn.Params[0]) {
						if fv := fieldOfAddr(x); fv != nil && fv != cache && !isSyncType(fv.Type()) {
							sources[fv] = fieldKeyAddr(x)
						}
					}
				case *ssa.UnOp:
					if x.Op == token.MUL {
						if fa, ok := recvField(fn, x.X); ok {
							if fv := fieldOfAddr(fa); fv != nil && fv != cache && !isSyncType(fv.Type()) {
								sources[fv] = fieldKeyAddr(fa)
							}
						}
					}
				}
				return false
			}
			p.backwardReaches(st.Val, collect)
			if fromArg {
				return
			}
			for _, b := range fn.Blocks {
				deps := transitiveControlDeps(fn, pdom, b)
				in := false
				for _, mb := range missBlocks {
					if deps[mb] {
						in = true
					}
				}
				if !in {
					continue
				}
				if c := ifCond(b); c != nil {
					p.backwardReaches(c, collect)
				}
			}
			fromArg = false
			if len(sources) == 0 {
				return
			}
			done[cache] = true
			memos = append(memos, u4memo{fn, cache, fieldKeyAddr(cfa), p.instrPos(st), sources})
		})
	}
	sort.Slice(memos, func(i, j int) bool { return memos[i].key < memos[j].key })
	vmemo := map[*ssa.Function]int{}
	for _, m := range memos {
		// functions that reset the cache: store into the cached field of any object of the type
		resets := map[*ssa.Function]bool{}
		writes := map[*ssa.Function]map[string]string{}
		fieldBehind := func(addr ssa.Value) *types.Var {
			for i := 0; i < 4; i++ {
				switch a := addr.(type) {
				case *ssa.IndexAddr:
					addr = a.X
					if u, ok := addr.(*ssa.UnOp); ok && u.Op == token.MUL {
						addr = u.X
					}
					continue
				case *ssa.FieldAddr:
					if fv := fieldOfAddr(a); fv == m.cache || m.sources[fv] != "" {
						return fv
					}
					addr = a.X
					continue
				}
				break
			}
			return nil
		}
		for _, fn := range p.Funcs {
			if fn.Blocks == nil || !p.InUniverse(fn) {
				continue
			}
			note := func(fv *types.Var, addr ssa.Value, pos string) {
				if fv == nil {
					return
				}
				if fv == m.cache {
					resets[fn] = true
					return
				}
				if fn == m.fn || fn.Signature.Recv() == nil && isConstructor(p, fn) || freshlyBuilt(p, addr, fn) || isOptionClosure(fn) {
					return
				}
				if writes[fn] == nil {
					writes[fn] = map[string]string{}
				}
				writes[fn][m.sources[fv]] = pos
			}
			instrsOf(fn, func(in ssa.Instruction) {
				switch x := in.(type) {
				case *ssa.Store:
					note(fieldBehind(x.Addr), x.Addr, p.instrPos(x))
				case *ssa.MapUpdate:
					if u, ok := p.origin(x.Map).(*ssa.UnOp); ok && u.Op == token.MUL {
						note(fieldBehind(u.X), u.X, p.instrPos(x))
					}
				case *ssa.Call:
					sc := x.Call.StaticCallee()
					if sc == nil || len(x.Call.Args) == 0 || sc.Signature.Recv() == nil || !p.InUniverse(sc) {
						return
					}
					if _, isPtr := sc.Signature.Recv().Type().(*types.Pointer); !isPtr {
						return
					}
					if fv := fieldBehind(x.Call.Args[0]); fv != nil && mutatesReceiver(p, sc, 0, vmemo) {
						note(fv, x.Call.Args[0], p.instrPos(x))
					}
				}
			})
		}
		var resetsVia func(fn *ssa.Function, d int) bool
		resetsVia = func(fn *ssa.Function, d int) bool {
			if resets[fn] {
				return true
			}
			if d > 2 {
				return false
			}
			found := false
			instrsOf(fn, func(in ssa.Instruction) {
				if c, ok := in.(ssa.CallInstruction); ok {
					if sc := c.Common().StaticCallee(); sc != nil && sc != fn && p.InUniverse(sc) && resetsVia(sc, d+1) {
						found = true
					}
				}
			})
			return found
		}
		var bad []string
		nW := 0
		var fns []*ssa.Function
		for fn := range writes {
			fns = append(fns, fn)
		}
		sort.Slice(fns, func(i, j int) bool { return funcKey(fns[i]) < funcKey(fns[j]) })
		for _, fn := range fns {
			nW++
			if resetsVia(fn, 0) {
				continue
			}
			// a helper whose every caller resets the cache is covered by them
			if p.allCallersSatisfy(fn, func(site ssa.CallInstruction) bool {
				sin, _ := site.(ssa.Instruction)
				return resetsVia(sin.Parent(), 0)
			}, ipDepth) {
				continue
			}
			var w []string
			for k, pos := range writes[fn] {
				w = append(w, fmt.Sprintf("%s at %s", fieldName(k), pos))
			}
			sort.Strings(w)
			bad = append(bad, fmt.Sprintf("%s writes %s and leaves the cache as it is", funcKey(fn), strings.Join(w, ", ")))
		}
		var src []string
		for _, k := range m.sources {
			src = append(src, fieldName(k))
		}
		sort.Strings(src)
		if len(bad) > 0 {
			o.bad("U4", m.key, m.at, fmt.Sprintf("filled on first use in %s from %s, but %s: the next reader is served what was computed from the previous values", funcKey(m.fn), strings.Join(src, ", "), strings.Join(bad, "; ")))
		} else {
			o.ok("U4", m.key, m.at, fmt.Sprintf("filled on first use in %s from %s; each of the %d function(s) that write those also resets it", funcKey(m.fn), strings.Join(src, ", "), nW))
		}
	}
	o.ok("U4", "inspected", "-", fmt.Sprintf("%d field(s) filled on first use from other fields of their object", len(memos)))
}

func isSyncType(t types.Type) bool {
	n := namedOf(deref(t))
	if n == nil || n.Obj().Pkg() == nil {
		return false
	}
	pp := n.Obj().Pkg().Path()
	return pp == "sync" || pp == "sync/atomic"
}
