package main

import (
	"crypto/sha1"
	"encoding/json"
	"fmt"
	"os"
	"path/filepath"
	"sort"
	"strings"
)

type Verdict string

const (
	Discharged Verdict = "discharged"
	Violated   Verdict = "violated"
	Undecided  Verdict = "undecided"
	Noted      Verdict = "note" // informational, never fails
)

// Obligation is one instance of a rule on one construct.
type Obligation struct {
	Rule    string  `json:"rule"`
	Key     string  `json:"key"` // rule|construct — stable, no line numbers
	Pos     string  `json:"pos"` // diagnosis only
	Verdict Verdict `json:"verdict"`
	Witness string  `json:"witness,omitempty"`
	Trivial bool    `json:"trivial,omitempty"` // discharged without a path/lockset/flow argument (e.g. pass-through exit)
}

type obls struct {
	p    *Prog
	list []Obligation
	seen map[string]int
}

func newObls(p *Prog) *obls { return &obls{p: p, seen: map[string]int{}} }

// add records an obligation; duplicate keys get a #n suffix in deterministic order (callers iterate sorted).
func (o *obls) add(rule, construct, pos string, v Verdict, witness string, trivial bool) {
	key := rule + "|" + construct
	o.seen[key]++
	if n := o.seen[key]; n > 1 {
		key = fmt.Sprintf("%s#%d", key, n)
	}
	o.list = append(o.list, Obligation{Rule: rule, Key: key, Pos: pos, Verdict: v, Witness: witness, Trivial: trivial})
}

func (o *obls) ok(rule, construct, pos, witness string) {
	o.add(rule, construct, pos, Discharged, witness, false)
}
func (o *obls) trivial(rule, construct, pos, witness string) {
	o.add(rule, construct, pos, Discharged, witness, true)
}
func (o *obls) bad(rule, construct, pos, witness string) {
	o.add(rule, construct, pos, Violated, witness, false)
}
func (o *obls) undecided(rule, construct, pos, witness string) {
	o.add(rule, construct, pos, Undecided, witness, false)
}
func (o *obls) note(rule, construct, pos, witness string) {
	o.add(rule, construct, pos, Noted, witness, true)
}

// KnownFinding is one entry of /verif/known_findings.json.
type KnownFinding struct {
	Properties []string `json:"properties"`
	Rule       string   `json:"rule"`
	Key        string   `json:"key"`
	What       string   `json:"what"`
	Status     string   `json:"status"` // "known" | "fixed"
	Commit     string   `json:"commit,omitempty"`
}

func loadKnown(path string) ([]KnownFinding, error) {
	b, err := os.ReadFile(path)
	if err != nil {
		if os.IsNotExist(err) {
			return nil, nil
		}
		return nil, err
	}
	var k []KnownFinding
	if err := json.Unmarshal(b, &k); err != nil {
		return nil, err
	}
	return k, nil
}

type Evidence struct {
	PropertyID  string         `json:"property_id"`
	Tier        string         `json:"tier"`
	Seed        int            `json:"seed"`
	Level       string         `json:"level"`
	Coverage    map[string]any `json:"coverage"`
	Assumptions []string       `json:"assumptions"`
	WallS       float64        `json:"wall_s"`
	Violations  int            `json:"violations"`
}

func writeJSON(path string, v any) error {
	if err := os.MkdirAll(filepath.Dir(path), 0o755); err != nil {
		return err
	}
	b, err := json.MarshalIndent(v, "", " ")
	if err != nil {
		return err
	}
	return os.WriteFile(path, append(b, '\n'), 0o644)
}

func shortHash(s string) string {
	h := sha1.Sum([]byte(s))
	return fmt.Sprintf("%x", h[:5])
}

func sortObls(l []Obligation) {
	sort.SliceStable(l, func(i, j int) bool { return l[i].Key < l[j].Key })
}

func countBy(l []Obligation, v Verdict) int {
	n := 0
	for _, o := range l {
		if o.Verdict == v {
			n++
		}
	}
	return n
}

func ruleOfKey(key string) string {
	if i := strings.Index(key, "|"); i >= 0 {
		return key[:i]
	}
	return key
}
