package main

import (
	"fmt"
	"go/token"
	"go/types"
	"strings"

	"golang.org/x/tools/go/ssa"
)

// Engine A — per-packet wrapper closures (DESIGN.md §3 A): A0 bind results, A1 forward-exactly-once,
// A2 read / fail-clean, A3 parameter immutability, A4 read buffer only as B[:n].

func init() {
	registerEngine("A", []string{"A0", "A1", "A2", "A3", "A4"}, runEngineA)
}

// bufferingInterceptors are the interceptors that C01 excludes by its own wording (they queue or re-order packets);
// A1/A2 do not apply to their closures, A3/A4 do. One line of reason each.
var bufferingInterceptors = map[string]string{
	"pkg/pacing.Interceptor":               "token-bucket pacer: packets are queued and written by its timer goroutine (C17)",
	"pkg/jitterbuffer.ReceiverInterceptor": "jitter buffer: packets are re-ordered and emitted later (C18)",
	"pkg/cc.Interceptor":                   "congestion controller: BindLocalStream hands the stream to the bandwidth estimator's pacer (C17)",
	"fixtures/fx.GoodA0Buffering":            "fixture twin of a declared buffering interceptor",
}

func closureOwnerType(fn *ssa.Function) string {
	top := fn
	for top.Parent() != nil {
		top = top.Parent()
	}
	if recv := top.Signature.Recv(); recv != nil {
		return typeKey(recv.Type())
	}
	return ""
}

var byObj map[*ssa.MakeInterface]*PktClosure

func runEngineA(p *Prog, o *obls) {
	closures, odd := p.PktClosures()
	for _, ct := range odd {
		o.undecided("A0", "conversion@"+funcKey(ct.Parent()), p.instrPos(ct),
			"a value that is not a function literal is converted to a per-packet func type; the closure rules cannot see its body")
	}
	byFn := map[*ssa.Function]*PktClosure{}
	byObj = map[*ssa.MakeInterface]*PktClosure{}
	for _, c := range closures {
		byFn[c.Fn] = c
		if c.Wrapper != nil {
			byFn[c.Wrapper] = c
		}
		if c.Obj != nil {
			byObj[c.Obj] = c
		}
	}
	a0BindResults(p, o, byFn)
	for _, c := range closures {
		key := closureKey(c)
		_, buffering := bufferingInterceptors[closureOwnerType(c.ownerFn())]
		// a reader closure whose whole body hands the wrapped reader and the buffer to one repository function and returns
		// what that returns is analysed as that function
		if !c.Kind.isWriter() && len(nextCalls(p, c)) == 0 {
			if sub := delegatedReader(p, c); sub != nil {
				c = sub
			}
		}
		if c.Kind.isWriter() {
			if !buffering {
				a1Writer(p, o, c, key)
			}
			a3Immutable(p, o, c, key)
		} else {
			if !buffering {
				a2Reader(p, o, c, key)
			}
			a4ReadBuffer(p, o, c, key)
		}
	}
}

// packetParams returns the closure's parameters that denote the packet: writers (header, payload) / (pkts); readers (b).
func packetParams(c *PktClosure) []*ssa.Parameter {
	if c.Pkt != nil {
		return c.Pkt
	}
	ps := c.Fn.Params
	switch c.Kind {
	case RTPWriter:
		return ps[:2]
	case RTCPWriter, RTPReader, RTCPReader:
		return ps[:1]
	}
	return nil
}

// nextCalls returns the invoke instructions on the closure's downstream (Write for writers, Read for readers).
func nextCalls(p *Prog, c *PktClosure) []*ssa.Call {
	var out []*ssa.Call
	if !c.hasNext() {
		return nil
	}
	want := "Write"
	if !c.Kind.isWriter() {
		want = "Read"
	}
	for _, f := range allNested(c.Fn) {
		if f != c.Fn {
			continue // calls from nested literals are handled as effects, not as the forward
		}
		instrsOf(f, func(in ssa.Instruction) {
			call, ok := in.(*ssa.Call)
			if !ok || !call.Call.IsInvoke() || call.Call.Method.Name() != want {
				return
			}
			if p.isNextValue(c, call.Call.Value) {
				out = append(out, call)
			}
		})
	}
	if len(out) == 0 && !c.Kind.isWriter() && c.depth < 2 {
		// the read is made through a repository helper that receives the wrapped reader and the buffer and returns
		// (n, attributes, error) like Read: the helper is checked as a reader itself, its call is the read site
		instrsOf(c.Fn, func(in ssa.Instruction) {
			call, ok := in.(*ssa.Call)
			if !ok {
				return
			}
			g := call.Call.StaticCallee()
			if g == nil || !p.InUniverse(g) || g.Blocks == nil || g.Signature.Results().Len() != 3 || !isErrorType(g.Signature.Results().At(2).Type()) {
				return
			}
			params := packetParams(c)
			var next *ssa.Parameter
			var bufPar *ssa.Parameter
			var bufArg ssa.Value
			for i, a := range call.Call.Args {
				if i >= len(g.Params) {
					break
				}
				if p.isNextValue(c, a) {
					next = g.Params[i]
				}
				if len(params) > 0 && p.originFullSlice(a) == ssa.Value(params[0]) {
					bufPar, bufArg = g.Params[i], a
				}
			}
			if next == nil || bufPar == nil {
				return
			}
			sub := &PktClosure{Fn: g, Kind: c.Kind, Next: next, Pkt: []*ssa.Parameter{bufPar}, depth: c.depth + 1, Owner: c.Owner}
			if pr, _, _ := a2Problems(p, sub); len(pr) == 0 {
				readBufArg[call] = bufArg
				out = append(out, call)
			}
		})
	}
	return out
}

// derivedFromParams reports whether v's backward slice reaches one of the packet parameters.
func derivedFromParams(p *Prog, v ssa.Value, params []*ssa.Parameter) bool {
	return p.backwardReaches(v, func(x ssa.Value) bool {
		for _, pp := range params {
			if x == ssa.Value(pp) {
				return true
			}
		}
		return false
	})
}

// contentPredicate reports whether the branch condition is computed from packet contents by the closure itself
// (not reported by a callee): a walk from cond through arithmetic, loads, len/cap and type assertions that reaches
// a packet parameter. The plain nil test of a parameter is not a content predicate.
func contentPredicate(p *Prog, cond ssa.Value, params []*ssa.Parameter) bool {
	isParam := func(x ssa.Value) bool {
		for _, pp := range params {
			if x == ssa.Value(pp) {
				return true
			}
		}
		return false
	}
	if bo, ok := cond.(*ssa.BinOp); ok && (bo.Op == token.EQL || bo.Op == token.NEQ) {
		if (isNilConst(bo.Y) && isParam(p.origin(bo.X))) || (isNilConst(bo.X) && isParam(p.origin(bo.Y))) {
			return false
		}
	}
	seen := map[ssa.Value]bool{}
	var walk func(v ssa.Value) bool
	walk = func(v ssa.Value) bool {
		if v == nil || seen[v] {
			return false
		}
		seen[v] = true
		v0 := p.origin(v)
		if v0 != v {
			return walk(v0)
		}
		if isParam(v) {
			return true
		}
		switch x := v.(type) {
		case *ssa.Call:
			if b, ok := x.Call.Value.(*ssa.Builtin); ok && (pureBuiltins[b.Name()]) {
				for _, a := range x.Call.Args {
					if walk(a) {
						return true
					}
				}
			}
			return false // reported by a callee
		case *ssa.Select, *ssa.Next, *ssa.Lookup:
			return false
		case *ssa.Extract:
			return walk(x.Tuple)
		case *ssa.Phi:
			for _, e := range x.Edges {
				if walk(e) {
					return true
				}
			}
			return false
		case *ssa.UnOp:
			if x.Op == token.MUL {
				return walk(addrRoot(x.X))
			}
			return walk(x.X)
		case *ssa.Parameter, *ssa.FreeVar, *ssa.Const, *ssa.Global, *ssa.Alloc:
			return false
		case ssa.Instruction:
			for _, op := range x.Operands(nil) {
				if *op != nil && walk(*op) {
					return true
				}
			}
		}
		return false
	}
	return walk(cond)
}

// directControlConds returns the If conditions the block is directly control dependent on.
func directControlConds(fn *ssa.Function, b *ssa.BasicBlock) []ssa.Value {
	pdom := postDominators(fn)
	var out []ssa.Value
	for _, c := range controlDeps(fn, pdom, b) {
		if cond := ifCond(c); cond != nil {
			out = append(out, cond)
		}
	}
	return out
}

// a1Writer: on every path exactly one identity forward whose error is returned, or a reject with a non-nil error
// that is not selected by packet contents.
func a1Writer(p *Prog, o *obls, c *PktClosure, key string) {
	pos := p.Pos(c.Fn.Pos())
	if !c.hasNext() {
		o.bad("A1", key, pos, "writer closure does not capture the downstream writer: every packet is dropped or diverted")
		return
	}
	problems, nID, injections, nRet := a1Core(p, c)
	if len(problems) > 0 {
		o.bad("A1", key, pos, strings.Join(problems, "; "))
		return
	}
	o.ok("A1", key, pos, fmt.Sprintf("%d identity forward site(s), %d injection site(s), %d return(s): exactly one forward or a content-independent reject on every path", nID, injections, nRet))
}

// helperForward: the call hands the downstream writer and the caller's packet, unchanged, to a repository function
// that itself forwards exactly once on every path and returns the downstream error (checked recursively).
func helperForward(p *Prog, c *PktClosure, call *ssa.Call) (isHelper bool, problems []string) {
	g := call.Call.StaticCallee()
	if g == nil || !p.InUniverse(g) || g.Blocks == nil || c.depth >= 2 {
		return false, nil
	}
	params := packetParams(c)
	var next *ssa.Parameter
	pkt := make([]*ssa.Parameter, len(params))
	for i, a := range call.Call.Args {
		if i >= len(g.Params) {
			break
		}
		if p.isNextValue(c, a) {
			next = g.Params[i]
		}
		for j, pp := range params {
			if p.originFullSlice(a) == ssa.Value(pp) {
				pkt[j] = g.Params[i]
			}
		}
	}
	if next == nil {
		return false, nil
	}
	for _, x := range pkt {
		if x == nil {
			return false, nil
		}
	}
	// the helper must return (…, error)
	res := g.Signature.Results()
	if res.Len() == 0 || !isErrorType(res.At(res.Len()-1).Type()) {
		return true, []string{fmt.Sprintf("the helper %s called at %s receives the downstream writer but returns no error", funcKey(g), p.instrPos(call))}
	}
	sub := &PktClosure{Fn: g, Kind: c.Kind, Next: next, Pkt: pkt, depth: c.depth + 1}
	pr, _, _, _ := a1Core(p, sub)
	for i := range pr {
		pr[i] = "in helper " + funcKey(g) + ": " + pr[i]
	}
	return true, pr
}

// a1Core checks the forward-exactly-once discipline of fn with respect to c.Next and the packet parameters.
func a1Core(p *Prog, c *PktClosure) (problems []string, nID, injections, nRet int) {
	params := packetParams(c)
	calls := nextCalls(p, c)
	identity := map[ssa.Instruction]bool{}
	var idCalls []*ssa.Call
	// forwards delegated to a helper function
	instrsOf(c.Fn, func(in ssa.Instruction) {
		call, ok := in.(*ssa.Call)
		if !ok || call.Call.IsInvoke() {
			return
		}
		if isH, pr := helperForward(p, c, call); isH {
			problems = append(problems, pr...)
			if len(pr) == 0 {
				identity[call] = true
				idCalls = append(idCalls, call)
			}
		}
	})
	for _, call := range calls {
		args := call.Call.Args
		allID, anyDerived := true, false
		for i, pp := range params {
			if p.originFullSlice(args[i]) != ssa.Value(pp) {
				allID = false
			}
			if aliasesParams(p, c.Fn, args[i], params) {
				anyDerived = true
			}
		}
		switch {
		case allID:
			identity[call] = true
			idCalls = append(idCalls, call)
		case anyDerived:
			problems = append(problems, fmt.Sprintf("altered: %s forwards something derived from, but not identical to, the caller's packet (args %s)",
				p.instrPos(call), argsString(args[:len(params)])))
		default:
			injections++
		}
	}
	// forwards issued from nested function literals or other goroutines cannot be ordered
	for _, f := range allNested(c.Fn) {
		if f == c.Fn {
			continue
		}
		instrsOf(f, func(in ssa.Instruction) {
			if call, ok := in.(*ssa.Call); ok && call.Call.IsInvoke() && call.Call.Method.Name() == "Write" && p.isNextValue(c, call.Call.Value) {
				for i, pp := range params {
					if i < len(call.Call.Args) && derivedFromParams(p, call.Call.Args[i], []*ssa.Parameter{pp}) {
						problems = append(problems, fmt.Sprintf("the caller's packet is forwarded from a nested function literal at %s", p.instrPos(call)))
					}
				}
			}
		})
	}
	before, _ := pathCounts(c.Fn, func(in ssa.Instruction) bool { return identity[in] })
	for _, b := range c.Fn.Blocks {
		ret, ok := b.Instrs[len(b.Instrs)-1].(*ssa.Return)
		if !ok || b == c.Fn.Recover {
			continue
		}
		nRet++
		mask := before[ret]
		errV := ret.Results[len(ret.Results)-1]
		rpos := p.instrPos(ret)
		if mask&4 != 0 {
			problems = append(problems, fmt.Sprintf("duplicated: a path to the return at %s forwards the packet more than once", rpos))
		}
		if mask&2 != 0 {
			// the forward's error must reach the caller
			ok := false
			for _, call := range idCalls {
				if !canReach(call, ret) {
					continue
				}
				fe := errExtract(call)
				if fe == nil {
					continue
				}
				if errCovers(p, errV, fe, b, map[ssa.Value]bool{}) {
					ok = true
				}
			}
			if !ok {
				problems = append(problems, fmt.Sprintf("error swallowed: the return at %s follows the forward but does not return its error", rpos))
			}
		}
		if mask&1 != 0 {
			if mask != 1 {
				// mixed: the same return is reached with and without a forward; decide per incoming edge when possible
				if !splitReturnOK(p, c, ret, identity, params) {
					problems = append(problems, fmt.Sprintf("dropped on some path: the return at %s is reached both with and without a forward (counts %s) and the no-forward path is not a reject", rpos, mask))
				}
				continue
			}
			if !p.nonNilError(errV, b) {
				problems = append(problems, fmt.Sprintf("dropped: the return at %s is reached without forwarding the packet and returns a nil (or not provably non-nil) error", rpos))
				continue
			}
			for _, cond := range directControlConds(c.Fn, b) {
				if contentPredicate(p, cond, params) {
					problems = append(problems, fmt.Sprintf("content-dependent drop: the reject at %s is selected by a predicate over packet contents (%s at %s)", rpos, valueString(cond), p.instrPosV(cond)))
				}
			}
		}
	}
	if nRet == 0 {
		problems = append(problems, "closure has no return (never completes)")
	}
	return problems, len(idCalls), injections, nRet
}

func (p *Prog) instrPosV(v ssa.Value) string {
	if in, ok := v.(ssa.Instruction); ok {
		return p.instrPos(in)
	}
	return p.Pos(v.Pos())
}

func argsString(a []ssa.Value) string {
	var s []string
	for _, x := range a {
		s = append(s, valueString(x))
	}
	return strings.Join(s, ", ")
}

// errCovers: whenever the forward's error fe is non-nil, the value v (evaluated at the end of block ctx) carries it:
// v is fe, or fe is known nil in ctx, or v is a φ all of whose incoming values cover fe on their edges, or v is built
// from a covering value (errors.Join / append of an error list / wrapping call).
func errCovers(p *Prog, v ssa.Value, fe ssa.Value, ctx *ssa.BasicBlock, seen map[ssa.Value]bool) bool {
	if v == nil {
		return false
	}
	if p.origin(v) == fe || p.nilnessAt(fe, ctx) == -1 {
		return true
	}
	if seen[v] {
		return true // a cycle through loop φs adds nothing new
	}
	seen[v] = true
	switch x := v.(type) {
	case *ssa.Phi:
		for i, e := range x.Edges {
			pred := x.Block().Preds[i]
			if nilOnEdge(p, fe, pred, x.Block()) {
				continue
			}
			if !errCovers(p, e, fe, pred, seen) {
				return false
			}
		}
		return true
	case *ssa.Call:
		if b := builtinName(&x.Call); b == "append" {
			for _, a := range x.Call.Args {
				if errCovers(p, a, fe, x.Block(), seen) {
					return true
				}
			}
			return false
		}
		if isLoggerCall(&x.Call) {
			return false
		}
		for _, a := range x.Call.Args {
			if (isErrorType(a.Type()) || isErrSlice(a.Type())) && errCovers(p, a, fe, x.Block(), seen) {
				return true
			}
		}
		return false
	case *ssa.Slice:
		return errCovers(p, x.X, fe, ctx, seen)
	case *ssa.Alloc:
		for _, st := range p.storesInto(x) {
			if errCovers(p, st.Val, fe, st.Block(), seen) {
				return true
			}
		}
		return false
	case *ssa.UnOp:
		if x.Op == token.MUL {
			if al, ok := cellAddr(x.X).(*ssa.Alloc); ok {
				sts := p.storesToCell(al)
				if len(sts) == 0 {
					return false
				}
				for _, st := range sts {
					if !errCovers(p, st.Val, fe, st.Block(), seen) {
						return false
					}
				}
				return true
			}
		}
	case *ssa.MakeInterface:
		return errCovers(p, x.X, fe, ctx, seen)
	case *ssa.ChangeType:
		return errCovers(p, x.X, fe, ctx, seen)
	case *ssa.Extract:
		return errCovers(p, x.Tuple, fe, ctx, seen)
	}
	return false
}

// nilOnEdge: the branch from pred to succ is only taken when fe is nil (pred tests fe against nil itself).
func nilOnEdge(p *Prog, fe ssa.Value, pred, succ *ssa.BasicBlock) bool {
	c := ifCond(pred)
	if c == nil || pred.Succs[0] == pred.Succs[1] {
		return false
	}
	f := normFact(condFact{c, pred.Succs[0] == succ})
	bo, ok := f.cond.(*ssa.BinOp)
	if !ok || (bo.Op != token.NEQ && bo.Op != token.EQL) {
		return false
	}
	var other ssa.Value
	if isNilConst(bo.Y) {
		other = bo.X
	} else if isNilConst(bo.X) {
		other = bo.Y
	} else {
		return false
	}
	if p.origin(other) != fe {
		return false
	}
	isNil := (bo.Op == token.EQL) == f.truth
	return isNil
}

func isErrSlice(t types.Type) bool {
	s, ok := t.Underlying().(*types.Slice)
	return ok && isErrorType(s.Elem())
}

// errExtract finds the Extract of the error result (last tuple element) of a call.
func errExtract(call *ssa.Call) *ssa.Extract {
	tup, ok := call.Type().(*types.Tuple)
	if !ok {
		return nil
	}
	idx := tup.Len() - 1
	for _, r := range *call.Referrers() {
		if ex, ok := r.(*ssa.Extract); ok && ex.Index == idx {
			return ex
		}
	}
	return nil
}

func extractN(call *ssa.Call, idx int) *ssa.Extract {
	if call.Referrers() == nil {
		return nil
	}
	for _, r := range *call.Referrers() {
		if ex, ok := r.(*ssa.Extract); ok && ex.Index == idx {
			return ex
		}
	}
	return nil
}

// splitReturnOK handles a return block that only merges (phis + return): each predecessor with count 0 must deliver
// a non-nil error through the phi.
func splitReturnOK(p *Prog, c *PktClosure, ret *ssa.Return, identity map[ssa.Instruction]bool, params []*ssa.Parameter) bool {
	b := ret.Block()
	for _, in := range b.Instrs {
		switch in.(type) {
		case *ssa.Phi, *ssa.Return, *ssa.DebugRef:
		default:
			return false
		}
	}
	errV, ok := ret.Results[len(ret.Results)-1].(*ssa.Phi)
	if !ok || errV.Block() != b {
		return false
	}
	_, blockIn := pathCounts(c.Fn, func(in ssa.Instruction) bool { return identity[in] })
	for i, pr := range b.Preds {
		m := blockIn[pr]
		for _, in := range pr.Instrs {
			if identity[in] {
				m = m.inc()
			}
		}
		if m&1 == 0 {
			continue
		}
		if m != 1 {
			return false
		}
		if !p.nonNilError(errV.Edges[i], pr) {
			return false
		}
		for _, cond := range directControlConds(c.Fn, pr) {
			if contentPredicate(p, cond, params) {
				return false
			}
		}
	}
	return true
}

// a2Reader: the wrapped reader is read exactly once per call; every effect after the read lies on the success branch
// of the read's error test; a failed read returns that error; a successful return reports the read's length.
func a2Reader(p *Prog, o *obls, c *PktClosure, key string) {
	pos := p.Pos(c.Fn.Pos())
	if !c.hasNext() {
		o.bad("A2", key, pos, "reader closure does not capture the wrapped reader")
		return
	}
	problems, nEff, nRet := a2Problems(p, c)
	if len(problems) > 0 {
		o.bad("A2", key, pos, strings.Join(problems, "; "))
		return
	}
	o.ok("A2", key, pos, fmt.Sprintf("1 read site, %d effect(s) all on the success branch, %d return(s) carry the read's length or its error", nEff, nRet))
}

// readBufArg: the buffer a read site hands to the wrapped reader (argument 0 of Read, or the helper's buffer argument).
var readBufArg = map[*ssa.Call]ssa.Value{}

func readBufOf(call *ssa.Call) ssa.Value {
	if v, ok := readBufArg[call]; ok {
		return v
	}
	return call.Call.Args[0]
}

// a2Problems is the A2 analysis proper.
func a2Problems(p *Prog, c *PktClosure) (problems []string, nEff, nRet int) {
	params := packetParams(c)
	calls := nextCalls(p, c)
	isRead := map[ssa.Instruction]bool{}
	for _, call := range calls {
		if p.originFullSlice(readBufOf(call)) != ssa.Value(params[0]) {
			problems = append(problems, fmt.Sprintf("the wrapped reader is given %s instead of the caller's buffer at %s", valueString(readBufOf(call)), p.instrPos(call)))
		}
		isRead[call] = true
	}
	if len(calls) == 0 {
		problems = append(problems, "the wrapped reader is never read")
	}
	before, _ := pathCounts(c.Fn, func(in ssa.Instruction) bool { return isRead[in] })
	for _, b := range c.Fn.Blocks {
		for _, in := range b.Instrs {
			// effects after a read must be on the success branch
			if isRead[in] {
				continue
			}
			if before[in]&6 != 0 && hasEffect(p, in) {
				nEff++
				okSomewhere := false
				for _, call := range calls {
					if !canReach(call, in) {
						continue
					}
					if fe := errExtract(call); fe != nil && p.nilnessAt(fe, b) == -1 {
						okSomewhere = true
					}
				}
				if !okSomewhere {
					problems = append(problems, fmt.Sprintf("failed read accounted: %s at %s runs after the read without being guarded by its error test", instrBrief(in), p.instrPos(in)))
				}
			}
		}
		ret, ok := b.Instrs[len(b.Instrs)-1].(*ssa.Return)
		if !ok || b == c.Fn.Recover {
			continue
		}
		nRet++
		mask := before[ret]
		rpos := p.instrPos(ret)
		errV := ret.Results[2]
		nV := ret.Results[0]
		if mask&4 != 0 {
			problems = append(problems, fmt.Sprintf("the wrapped reader may be read more than once before the return at %s", rpos))
		}
		if mask&1 != 0 {
			if mask != 1 || !p.nonNilError(errV, b) {
				problems = append(problems, fmt.Sprintf("the return at %s can be reached without reading the wrapped reader and without an error", rpos))
			} else {
				for _, cond := range directControlConds(c.Fn, b) {
					if contentPredicate(p, cond, params) {
						problems = append(problems, fmt.Sprintf("content-dependent reject before reading at %s", rpos))
					}
				}
			}
		}
		if mask&2 != 0 {
			for _, call := range calls {
				if !canReach(call, ret) {
					continue
				}
				fe := errExtract(call)
				n0 := extractN(call, 0)
				if fe == nil {
					problems = append(problems, fmt.Sprintf("the read's error is discarded at %s", p.instrPos(call)))
					continue
				}
				switch p.nilnessAt(fe, b) {
				case -1: // success branch
					if p.nonNilError(errV, b) {
						// rejected after a successful read: must not be selected by contents
						for _, cond := range directControlConds(c.Fn, b) {
							if contentPredicate(p, cond, params) {
								problems = append(problems, fmt.Sprintf("content-dependent drop: the error return at %s is selected by a predicate over packet contents (%s)", rpos, valueString(cond)))
							}
						}
						continue
					}
					if n0 != nil && lengthThroughHelper(p, nV, n0) {
						continue // the per-read work moved into a helper that is given n and hands it back
					}
					if n0 == nil || p.origin(nV) != ssa.Value(n0) {
						if p.nilnessAtConstNil(errV) || p.origin(errV) == ssa.Value(fe) || true {
							problems = append(problems, fmt.Sprintf("length changed: the successful return at %s reports %s instead of the length the wrapped reader returned", rpos, valueString(nV)))
						}
					}
				default: // failure branch or unknown: the read's error must be returned
					if !errCovers(p, errV, fe, b, map[ssa.Value]bool{}) {
						problems = append(problems, fmt.Sprintf("error swallowed: the return at %s does not carry the wrapped reader's error", rpos))
					}
					if p.nilnessAt(fe, b) == 0 && !p.nonNilError(errV, b) && (n0 == nil || p.origin(nV) != ssa.Value(n0)) {
						problems = append(problems, fmt.Sprintf("length changed: the return at %s (read error not tested) reports %s instead of the read's length", rpos, valueString(nV)))
					}
				}
			}
		}
	}
	// stores into the caller's buffer
	for _, w := range writesThrough(p, c.Fn, params, map[*ssa.Function]bool{}) {
		problems = append(problems, "the read buffer is written: "+w)
	}
	return problems, nEff, nRet
}

func (p *Prog) nilnessAtConstNil(v ssa.Value) bool { return isNilConst(v) }

func instrBrief(in ssa.Instruction) string {
	s := in.String()
	if v, ok := in.(ssa.Value); ok {
		s = v.Name() + " = " + s
	}
	s = strings.ReplaceAll(s, modPath+"/", "")
	if len(s) > 100 {
		s = s[:100] + "…"
	}
	return s
}

// hasEffect: calls (other than logging and pure builtins), go, defer, channel sends, and stores/map updates to memory
// that was not allocated by this invocation.
func hasEffect(p *Prog, in ssa.Instruction) bool {
	switch x := in.(type) {
	case *ssa.Call:
		if b, ok := x.Call.Value.(*ssa.Builtin); ok {
			return !pureBuiltins[b.Name()] && b.Name() != "append" && b.Name() != "copy" || (b.Name() == "copy" && !isLocalAddr(addrRootV(x.Call.Args[0])))
		}
		if isLoggerCall(&x.Call) {
			return false
		}
		return true
	case *ssa.Go, *ssa.Defer, *ssa.Send:
		return true
	case *ssa.Select:
		for _, st := range x.States {
			if st.Dir == types.SendOnly {
				return true
			}
		}
		return false
	case *ssa.Store:
		return !isLocalAddr(addrRoot(x.Addr))
	case *ssa.MapUpdate:
		_, local := x.Map.(*ssa.MakeMap)
		return !local
	}
	return false
}

func addrRootV(v ssa.Value) ssa.Value { return addrRoot(v) }

func isLocalAddr(v ssa.Value) bool {
	switch x := cellAddr(v).(type) {
	case *ssa.Alloc:
		return true
	case *ssa.MakeSlice, *ssa.MakeMap:
		return true
	default:
		_ = x
		return false
	}
}

// a3Immutable: no store through the header pointer / payload elements / the pkts slice, in the closure or in any
// repository function that receives them.
func a3Immutable(p *Prog, o *obls, c *PktClosure, key string) {
	pos := p.Pos(c.Fn.Pos())
	params := packetParams(c)
	ws := writesThrough(p, c.Fn, params, map[*ssa.Function]bool{})
	var real []string
	allowed := 0
	for _, w := range ws {
		if strings.HasPrefix(w, "ALLOWED ") {
			allowed++
			continue
		}
		real = append(real, w)
	}
	if len(real) > 0 {
		o.bad("A3", key, pos, "caller's packet is modified: "+strings.Join(real, "; "))
		return
	}
	w := "no store through the caller's header/payload in the closure or its repository callees"
	if allowed > 0 {
		w += fmt.Sprintf(" (%d permitted: the negotiated transport-wide-CC header extension)", allowed)
	}
	o.ok("A3", key, pos, w)
}

// rtpHeaderMutators / readers: frozen from pion/rtp v1.10.5 (methods with pointer receiver on rtp.Header).
var rtpHeaderMutators = map[string]bool{"SetExtension": true, "SetExtensionWithProfile": true, "DelExtension": true, "ClearExtensions": true, "Unmarshal": true}

// aliasingGetters: non-repository methods whose result aliases the receiver's memory (pion/rtp v1.10.5).
var aliasingGetters = map[string]bool{
	"(*github.com/pion/rtp.Header).GetExtension": true,
}

// externalWriters lists non-repository functions that write through an argument: name → index of written argument
// (receiver counts as argument 0 for methods).
var externalWriters = map[string]int{
	"(encoding/binary.bigEndian).PutUint16": 1, "(encoding/binary.bigEndian).PutUint32": 1, "(encoding/binary.bigEndian).PutUint64": 1,
	"(encoding/binary.littleEndian).PutUint16": 1, "(encoding/binary.littleEndian).PutUint32": 1, "(encoding/binary.littleEndian).PutUint64": 1,
	"(github.com/pion/rtp.Header).MarshalTo": 1, "(*github.com/pion/rtp.Packet).MarshalTo": 1, "(github.com/pion/rtp.Packet).MarshalTo": 1,
	"io.ReadFull": 1, "crypto/rand.Read": 0, "math/rand.Read": 0,
}

// writesThrough returns descriptions of stores through addresses derived from the given values (parameters of fn or
// values flowing from the caller), following repository callees.
func writesThrough(p *Prog, fn *ssa.Function, roots []*ssa.Parameter, visiting map[*ssa.Function]bool) []string {
	var rv []ssa.Value
	for _, r := range roots {
		rv = append(rv, r)
	}
	return writesThroughVals(p, fn, rv, visiting, 0)
}

func writesThroughVals(p *Prog, fn *ssa.Function, roots []ssa.Value, visiting map[*ssa.Function]bool, depth int) []string {
	if visiting[fn] || depth > 8 {
		return nil
	}
	visiting[fn] = true
	defer delete(visiting, fn)
	derived, _ := aliasSets(p, fn, roots)
	var fieldEscapes []string
	if depth == 0 {
		fieldEscapes = writesViaEscapedFields(p, fn, derived)
	}
	var out []string
	out = append(out, fieldEscapes...)
	for _, f := range allNested(fn) {
		instrsOf(f, func(in ssa.Instruction) {
			switch x := in.(type) {
			case *ssa.Store:
				if derived[x.Addr] {
					if _, isAlloc := cellAddr(x.Addr).(*ssa.Alloc); isAlloc {
						return
					}
					out = append(out, fmt.Sprintf("store %s at %s (in %s)", valueString(x.Addr), p.instrPos(x), funcKey(f)))
				}
			case *ssa.MapUpdate:
				if derived[x.Map] {
					out = append(out, fmt.Sprintf("map update at %s", p.instrPos(x)))
				}
			case ssa.CallInstruction:
				cc := x.Common()
				if b, ok := cc.Value.(*ssa.Builtin); ok {
					switch b.Name() {
					case "copy":
						if derived[cc.Args[0]] {
							out = append(out, fmt.Sprintf("copy into caller memory at %s", p.instrPos(x)))
						}
					case "clear":
						if derived[cc.Args[0]] {
							out = append(out, fmt.Sprintf("clear of caller memory at %s", p.instrPos(x)))
						}
					case "append":
						if derived[cc.Args[0]] {
							if _, isByte := cc.Args[0].Type().Underlying().(*types.Slice); isByte {
								out = append(out, fmt.Sprintf("append to the caller's slice (writes its spare capacity) at %s", p.instrPos(x)))
							}
						}
					}
					return
				}
				// collect argument positions that are derived
				var args []ssa.Value
				if cc.IsInvoke() {
					args = append([]ssa.Value{cc.Value}, cc.Args...)
				} else {
					args = cc.Args
				}
				anyDerived := false
				for _, a := range args {
					if derived[a] {
						anyDerived = true
					}
				}
				if !anyDerived {
					return
				}
				name := calleeName(cc)
				// pion/rtp header methods
				if sc := cc.StaticCallee(); sc != nil && sc.Signature.Recv() != nil && typeKey(sc.Signature.Recv().Type()) == "github.com/pion/rtp.Header" {
					if rtpHeaderMutators[sc.Name()] && len(args) > 0 && derived[args[0]] {
						if sc.Name() == "SetExtension" && twccExtensionCall(p, x) {
							out = append(out, fmt.Sprintf("ALLOWED header.SetExtension with the negotiated transport-wide-CC id at %s", p.instrPos(x)))
						} else {
							out = append(out, fmt.Sprintf("header mutator %s called on the caller's header at %s", sc.Name(), p.instrPos(x)))
						}
					}
					return
				}
				if idx, ok := externalWriters[name]; ok {
					if idx < len(args) && derived[args[idx]] {
						out = append(out, fmt.Sprintf("%s writes into caller memory at %s", name, p.instrPos(x)))
					}
					return
				}
				// any MarshalTo(buf) of a non-repository type serialises into its argument
				if sc := cc.StaticCallee(); sc != nil && !p.InUniverse(sc) && sc.Name() == "MarshalTo" && len(args) > 1 && derived[args[1]] {
					out = append(out, fmt.Sprintf("%s writes into caller memory at %s", name, p.instrPos(x)))
					return
				}
				// downstream / upstream chain calls are the contract of the chain
				if cc.IsInvoke() && isChainIface(p, cc.Value.Type()) {
					return
				}
				for _, callee := range p.Callees(x) {
					if !p.InUniverse(callee) || callee.Blocks == nil {
						continue
					}
					var sub []ssa.Value
					for i, a := range args {
						if derived[a] && i < len(callee.Params) {
							sub = append(sub, callee.Params[i])
						}
					}
					// bound closures: free variables are handled by allNested of the parent, not here
					for _, w := range writesThroughVals(p, callee, sub, visiting, depth+1) {
						out = append(out, w+" ← "+p.instrPos(x))
					}
				}
			}
		})
	}
	return out
}

// containsRefs: a struct (or array) type with slice/pointer/map fields.
func containsRefs(t types.Type) bool {
	switch u := t.Underlying().(type) {
	case *types.Struct:
		for i := 0; i < u.NumFields(); i++ {
			ft := u.Field(i).Type()
			if isRefType(ft) || containsRefs(ft) {
				return true
			}
		}
	case *types.Array:
		return isRefType(u.Elem()) || containsRefs(u.Elem())
	}
	return false
}

func isRefType(t types.Type) bool {
	switch t.Underlying().(type) {
	case *types.Slice, *types.Pointer, *types.Map:
		return true
	}
	return false
}

func isChainIface(p *Prog, t types.Type) bool {
	for _, n := range []string{"RTPWriter", "RTPReader", "RTCPWriter", "RTCPReader"} {
		if types.Identical(t, p.rootNamed(n)) {
			return true
		}
	}
	// a repository-local interface that is just the Read (or Write) method of a chain interface under another name
	// (`type attributesReader interface{ Read([]byte, Attributes) (int, Attributes, error) }`)
	it, ok := t.Underlying().(*types.Interface)
	if !ok || it.NumMethods() != 1 {
		return false
	}
	if nt := namedOf(t); nt == nil || nt.Obj().Pkg() == nil || !strings.HasPrefix(nt.Obj().Pkg().Path(), modPath) && !strings.HasPrefix(nt.Obj().Pkg().Path(), "fixtures") {
		return false
	}
	m := it.Method(0)
	for _, n := range []string{"RTPWriter", "RTPReader", "RTCPWriter", "RTCPReader"} {
		ci := p.rootIface(n)
		if ci == nil {
			continue
		}
		for i := 0; i < ci.NumMethods(); i++ {
			if ci.Method(i).Name() == m.Name() && types.Identical(ci.Method(i).Type(), m.Type()) {
				return true
			}
		}
	}
	return false
}

// twccExtensionCall: header.SetExtension(id, …) where id flows from the URI match on info.RTPHeaderExtensions in the
// enclosing Bind function (a loop variable's ID field assigned under a comparison of its URI with the
// transport-wide-CC URI constant).
func twccExtensionCall(p *Prog, call ssa.CallInstruction) bool {
	args := call.Common().Args
	if len(args) < 2 {
		return false
	}
	id := args[1]
	isIDField, usesURI := twccIsIDField, twccUsesURI
	top := call.Parent()
	for top.Parent() != nil {
		top = top.Parent()
	}
	// (a) the id is taken from RTPHeaderExtension.ID in the enclosing Bind function, which matches the URI
	if p.backwardReaches(id, isIDField) && usesURI(top) {
		return true
	}
	// (a') the id is a field of the per-packet object (method form), set once where the object is built from such an ID
	if u, ok := p.origin(id).(*ssa.UnOp); ok && u.Op == token.MUL {
		if fa, ok := u.X.(*ssa.FieldAddr); ok {
			if fv := fieldOfAddr(fa); fv != nil {
				sts := p.storesToField(fv)
				okAll := len(sts) > 0
				for _, st := range sts {
					if !twccIDValue(p, st.Val, st.Parent(), isIDField, usesURI) {
						okAll = false
					}
				}
				if okAll {
					return true
				}
			}
		}
	}
	// (c) the call sits in a helper that receives the id as a parameter: every caller passes the negotiated id
	if _, isPar := p.origin(id).(*ssa.Parameter); isPar && twccIDValue(p, id, call.Parent(), isIDField, usesURI) {
		return true
	}
	// (b) the id is the result of a repository helper that matches the URI and returns the extension's ID
	okHelper := false
	p.backwardReaches(id, func(v ssa.Value) bool {
		c, ok := v.(*ssa.Call)
		if !ok {
			return false
		}
		g := c.Call.StaticCallee()
		if g == nil || !p.InUniverse(g) || !usesURI(g) {
			return false
		}
		okHelper = twccHelperReturnsID(p, g, isIDField)
		return okHelper
	})
	return okHelper
}

func twccIsIDField(v ssa.Value) bool {
	if u, ok := v.(*ssa.UnOp); ok && u.Op == token.MUL {
		if fa, ok := u.X.(*ssa.FieldAddr); ok {
			return fieldKeyAddr(fa) == "interceptor.RTPHeaderExtension.ID"
		}
	}
	if f, ok := v.(*ssa.Field); ok {
		if fv := fieldOfVal(f); fv != nil && fv.Name() == "ID" && typeKey(f.X.Type()) == "interceptor.RTPHeaderExtension" {
			return true
		}
	}
	return false
}
func twccUsesURI(fn *ssa.Function) bool {
	found := false
	instrsOf(fn, func(in ssa.Instruction) {
		if bo, ok := in.(*ssa.BinOp); ok && (bo.Op == token.EQL || bo.Op == token.NEQ) {
			for _, s := range []ssa.Value{bo.X, bo.Y} {
				if c, ok := s.(*ssa.Const); ok && c.Value != nil && strings.Contains(c.Value.ExactString(), "transport-wide-cc-extensions") {
					found = true
				}
			}
		}
	})
	return found
}

// twccHelperReturnsID: every return of the helper yields the ID field of an extension of the StreamInfo it was given, or
// the constant 0 (not found) — not a value remembered from another stream (an id cached on the interceptor).
func twccHelperReturnsID(p *Prog, g *ssa.Function, isIDField func(ssa.Value) bool) bool {
	some := false
	for _, b := range g.Blocks {
		ret, isR := b.Instrs[len(b.Instrs)-1].(*ssa.Return)
		if !isR || b == g.Recover {
			continue
		}
		for _, r := range ret.Results {
			var check func(v ssa.Value, d int) bool
			check = func(v ssa.Value, d int) bool {
				v = p.origin(v)
				if c, ok := v.(*ssa.Const); ok {
					k, isInt := constInt(c)
					return isInt && k == 0
				}
				if ph, ok := v.(*ssa.Phi); ok && d < 6 {
					for _, e := range ph.Edges {
						if !check(e, d+1) {
							return false
						}
					}
					return true
				}
				if cv, ok := v.(*ssa.Convert); ok && d < 6 {
					return check(cv.X, d+1)
				}
				if isIDField(v) || p.backwardReaches(v, isIDField) {
					// must not also depend on state of the receiver (a cached id merged in)
					var recv ssa.Value
					if g.Signature.Recv() != nil && len(g.Params) > 0 {
						recv = g.Params[0]
					}
					dependsOnCall := recv != nil && p.backwardReaches(v, func(x ssa.Value) bool {
						switch y := x.(type) {
						case *ssa.Call:
							return len(y.Call.Args) > 0 && p.origin(addrRoot(y.Call.Args[0])) == recv
						case *ssa.UnOp:
							return y.Op == token.MUL && p.origin(addrRoot(y.X)) == recv
						}
						return false
					})
					if !dependsOnCall {
						some = true
						return true
					}
				}
				return false
			}
			if !check(r, 0) {
				return false
			}
		}
	}
	return some
}

// twccIDValue: v (in function fn) is the negotiated transport-wide-CC extension id: read from RTPHeaderExtension.ID in
// a function that matches the URI, or returned by a repository helper that does.
func twccIDValue(p *Prog, v ssa.Value, fn *ssa.Function, isIDField func(ssa.Value) bool, usesURI func(*ssa.Function) bool) bool {
	return twccIDValueD(p, v, fn, isIDField, usesURI, 0)
}

func twccIDValueD(p *Prog, v ssa.Value, fn *ssa.Function, isIDField func(ssa.Value) bool, usesURI func(*ssa.Function) bool, depth int) bool {
	if par, isPar := p.origin(v).(*ssa.Parameter); isPar && depth < ipDepth {
		args, sites, closed := p.argsForParam(par)
		if !closed || len(args) == 0 {
			return false
		}
		for i, a := range args {
			if !twccIDValueD(p, a, sites[i].Parent(), isIDField, usesURI, depth+1) {
				return false
			}
		}
		return true
	}
	top := fn
	for top.Parent() != nil {
		top = top.Parent()
	}
	if p.backwardReaches(v, isIDField) && usesURI(top) {
		return true
	}
	ok := false
	p.backwardReaches(v, func(x ssa.Value) bool {
		c, isC := x.(*ssa.Call)
		if !isC {
			return false
		}
		g := c.Call.StaticCallee()
		if g == nil || !p.InUniverse(g) || !usesURI(g) {
			return false
		}
		ok = twccHelperReturnsID(p, g, isIDField)
		return ok
	})
	return ok
}

// a4ReadBuffer: after n, _, err := next.Read(B, a) the buffer B is used as data only as B[..:n].
func a4ReadBuffer(p *Prog, o *obls, c *PktClosure, key string) {
	pos := p.Pos(c.Fn.Pos())
	if !c.hasNext() {
		return
	}
	calls := nextCalls(p, c)
	if len(calls) == 0 {
		return
	}
	// the read buffer is whatever the closure hands to the wrapped reader (the caller's buffer, or a local one)
	B := p.origin(readBufOf(calls[0]))
	for _, call := range calls[1:] {
		if p.origin(readBufOf(call)) != B {
			o.undecided("A4", key, pos, "several reads into different buffers")
			return
		}
	}
	var nVals []ssa.Value
	for _, call := range calls {
		if n0 := extractN(call, 0); n0 != nil {
			nVals = append(nVals, n0)
		}
	}
	isN := func(v ssa.Value) bool {
		for _, n := range nVals {
			if v == n {
				return true
			}
		}
		return false
	}
	// all values denoting B itself (spills, free variables in nested literals)
	var problems []string
	uses := 0
	for _, f := range allNested(c.Fn) {
		instrsOf(f, func(in ssa.Instruction) {
			for _, op := range in.Operands(nil) {
				if *op == nil || p.origin(*op) != B {
					continue
				}
				if _, isLoad := in.(*ssa.UnOp); isLoad {
					continue // a load of the spilled parameter; its users are visited themselves
				}
				if st, ok := in.(*ssa.Store); ok && st.Val == *op {
					if _, isAlloc := cellAddr(st.Addr).(*ssa.Alloc); isAlloc {
						continue // parameter spill
					}
				}
				switch x := in.(type) {
				case *ssa.Slice:
					uses++
					if x.High == nil {
						problems = append(problems, fmt.Sprintf("%s slices the read buffer up to len(buffer), not to the length read", p.instrPos(x)))
					} else if !p.backwardReaches(x.High, isN) {
						problems = append(problems, fmt.Sprintf("%s slices the read buffer with a bound (%s) that is not the length read", p.instrPos(x), valueString(x.High)))
					}
				case *ssa.Call:
					if b, ok := x.Call.Value.(*ssa.Builtin); ok && (b.Name() == "len" || b.Name() == "cap") {
						continue
					}
					isNext := false
					for _, nc := range calls {
						if nc == x {
							isNext = true
						}
					}
					if isNext {
						continue
					}
					uses++
					name := calleeName(&x.Call)
					if idx, ok := externalWriters[name]; ok {
						args := x.Call.Args
						if idx < len(args) && p.origin(args[idx]) == B {
							continue // destination of a marshal: not a read of stale bytes
						}
					}
					if helperSlicesToLength(p, x, B, isN) {
						continue // the helper is handed the buffer together with the length read and only looks at buffer[:n]
					}
					problems = append(problems, fmt.Sprintf("%s passes the whole read buffer (not buffer[:n]) to %s", p.instrPos(x), shortCallee(name)))
				case *ssa.IndexAddr:
					uses++
					guarded := false
					for _, fct := range dominatingFactsInstr(x) {
						if p.backwardReaches(fct.cond, isN) {
							guarded = true
						}
					}
					if !guarded {
						problems = append(problems, fmt.Sprintf("%s reads an element of the read buffer without a test against the length read", p.instrPos(x)))
					}
				case *ssa.MakeClosure, *ssa.DebugRef, *ssa.Phi:
				default:
					uses++
					if _, ok := in.(*ssa.Return); ok {
						continue
					}
					problems = append(problems, fmt.Sprintf("%s uses the whole read buffer (%s)", p.instrPos(in), instrBrief(in)))
				}
			}
		})
	}
	if len(problems) > 0 {
		o.bad("A4", key, pos, strings.Join(problems, "; "))
		return
	}
	o.ok("A4", key, pos, fmt.Sprintf("%d data use(s) of the read buffer, all as buffer[..:n] with n the length returned by the wrapped reader", uses))
}

func shortCallee(n string) string { return strings.ReplaceAll(n, modPath+"/", "") }

// a0BindResults: what each declared Bind* method of each interceptor type returns.
func a0BindResults(p *Prog, o *obls, byFn map[*ssa.Function]*PktClosure) {
	for _, t := range p.InterceptorTypes() {
		tk := typeKey(t)
		if tk == "interceptor.Chain" {
			continue // engine K
		}
		for _, m := range bindMethods {
			fn := p.DeclaredMethod(t, m)
			if fn == nil || fn.Blocks == nil {
				continue // promoted from NoOp
			}
			par := fn.Params[len(fn.Params)-1]
			key := funcKey(fn)
			kinds := map[string]int{}
			var problems []string
			classifyReturns(p, fn, par, byFn, kinds, &problems, 0)
			_, buffering := bufferingInterceptors[tk]
			if n := kinds["opaque"]; n > 0 && !buffering {
				problems = append(problems, fmt.Sprintf("%d return(s) hand back something that is neither the argument nor a per-packet closure, and %s is not a declared buffering interceptor", n, tk))
			}
			if len(problems) > 0 {
				o.bad("A0", key, p.Pos(fn.Pos()), strings.Join(problems, "; "))
				continue
			}
			w := fmt.Sprintf("returns: %d×argument (pass-through), %d×per-packet closure, %d×opaque(buffering)", kinds["param"], kinds["closure"], kinds["opaque"])
			if kinds["closure"] == 0 && kinds["opaque"] == 0 {
				o.trivial("A0", key, p.Pos(fn.Pos()), w)
			} else {
				o.ok("A0", key, p.Pos(fn.Pos()), w)
			}
		}
	}
}

func classifyReturns(p *Prog, fn *ssa.Function, par *ssa.Parameter, byFn map[*ssa.Function]*PktClosure, kinds map[string]int, problems *[]string, depth int) {
	for _, b := range fn.Blocks {
		ret, ok := b.Instrs[len(b.Instrs)-1].(*ssa.Return)
		if !ok || len(ret.Results) == 0 || b == fn.Recover {
			continue
		}
		v := p.origin(ret.Results[0])
		if mi, ok := v.(*ssa.MakeInterface); ok {
			if c := byObj[mi]; c != nil {
				kinds["closure"]++
				if c.nextSource() != par {
					*problems = append(*problems, fmt.Sprintf("the object returned at %s does not wrap this method's argument", p.instrPos(ret)))
				}
				continue
			}
			v = p.origin(mi.X)
		}
		switch x := v.(type) {
		case *ssa.Parameter:
			if x == par {
				kinds["param"]++
			} else {
				kinds["opaque"]++
			}
		case *ssa.MakeClosure:
			if c := byFn[x.Fn.(*ssa.Function)]; c != nil {
				kinds["closure"]++
				if c.nextSource() != par {
					*problems = append(*problems, fmt.Sprintf("the closure returned at %s does not wrap this method's argument", p.instrPos(ret)))
				}
			} else {
				kinds["opaque"]++
			}
		case *ssa.Call:
			callee := x.Call.StaticCallee()
			if callee != nil && p.InUniverse(callee) && depth < 3 {
				// helper that builds the closure: find which of its params receives par
				var hp *ssa.Parameter
				for i, a := range x.Call.Args {
					if p.origin(a) == ssa.Value(par) && i < len(callee.Params) {
						hp = callee.Params[i]
					}
				}
				if hp != nil {
					classifyReturns(p, callee, hp, byFn, kinds, problems, depth+1)
					continue
				}
			}
			kinds["opaque"]++
		default:
			if isNilConst(v) {
				*problems = append(*problems, fmt.Sprintf("returns nil at %s", p.instrPos(ret)))
			}
			kinds["opaque"]++
		}
	}
}

// aliasSets computes the values of fn (and its nested literals) that alias the memory denoted by roots: pointers into
// it, sub-slices, references loaded out of it, and local variables holding a shallow copy of it (holders).
func aliasSets(p *Prog, fn *ssa.Function, roots []ssa.Value) (map[ssa.Value]bool, map[ssa.Value]bool) {
	// derived: values that alias caller memory (pointers into it, slices of it)
	derived := map[ssa.Value]bool{}
	for _, r := range roots {
		derived[r] = true
	}
	// local variables that hold a shallow copy of caller memory (hc := *header): their reference-typed fields alias it
	holders := map[ssa.Value]bool{}
	changed := true
	for changed {
		changed = false
		mark := func(v ssa.Value) {
			if !derived[v] {
				derived[v] = true
				changed = true
			}
		}
		for _, f := range allNested(fn) {
			for _, fv := range f.FreeVars {
				if r := resolveFreeVar(fv); r != ssa.Value(fv) && derived[r] {
					mark(fv)
				}
			}
			instrsOf(f, func(in ssa.Instruction) {
				switch x := in.(type) {
				case *ssa.FieldAddr:
					if derived[x.X] {
						mark(x)
					}
				case *ssa.IndexAddr:
					if derived[x.X] {
						mark(x)
					}
				case *ssa.Slice:
					if derived[x.X] {
						mark(x)
					}
				case *ssa.ChangeType:
					if derived[x.X] {
						mark(x)
					}
				case *ssa.Phi:
					for _, e := range x.Edges {
						if derived[e] {
							mark(x)
						}
					}
				case *ssa.UnOp:
					if x.Op == token.MUL {
						// loading a slice/pointer/map-typed field out of caller memory yields an alias of caller memory;
						// loading a struct that contains such fields yields a shallow copy
						if derived[x.X] && (isRefType(x.Type()) || containsRefs(x.Type())) {
							mark(x)
						}
						if root := cellAddr(addrRoot(x.X)); holders[root] && (isRefType(x.Type()) || containsRefs(x.Type())) {
							mark(x)
						}
						// loading from a single-assignment local cell that holds a derived value (spilled params)
						if al, ok := cellAddr(x.X).(*ssa.Alloc); ok {
							for _, st := range p.storesToCell(al) {
								if derived[st.Val] {
									mark(x)
								}
							}
						}
					}
				case *ssa.Field:
					if derived[x.X] && (isRefType(x.Type()) || containsRefs(x.Type())) {
						mark(x)
					}
				case *ssa.Call:
					// getters of the packet types that hand out a slice of the packet's own memory
					if aliasingGetters[calleeName(&x.Call)] && len(x.Call.Args) > 0 && derived[x.Call.Args[0]] {
						mark(x)
					}
				case *ssa.Store:
					if derived[x.Val] {
						if root, ok := cellAddr(addrRoot(x.Addr)).(*ssa.Alloc); ok && !holders[root] {
							if _, isStruct := x.Val.Type().Underlying().(*types.Struct); isStruct {
								holders[root] = true
								changed = true
							}
						}
					}
				}
			})
		}
	}
	return derived, holders
}

// aliasesParams: v aliases the caller's packet memory (a sub-slice, a pointer into it, or the address of a local that
// holds a shallow copy of it) — as opposed to a value merely computed from its contents.
func aliasesParams(p *Prog, fn *ssa.Function, v ssa.Value, params []*ssa.Parameter) bool {
	var roots []ssa.Value
	for _, pp := range params {
		roots = append(roots, pp)
	}
	derived, holders := aliasSets(p, fn, roots)
	if derived[v] || derived[p.origin(v)] {
		return true
	}
	if al, ok := cellAddr(addrRoot(v)).(*ssa.Alloc); ok && holders[al] {
		return true
	}
	return false
}

// writesViaEscapedFields: caller memory that is parked in a struct field (a queue item, a dump record) is still the
// caller's memory wherever that field is read back — possibly in another goroutine. Any function of the library that
// writes through a load of such a field (element store, in-place compaction `x.f[:0]` + append, copy into it) modifies
// the caller's packet. Field-based: all objects of the struct type are treated alike.
func writesViaEscapedFields(p *Prog, fn *ssa.Function, derived map[ssa.Value]bool) []string {
	escaped := map[string]string{} // field key → where it was stored
	var walkFn func(f *ssa.Function, der map[ssa.Value]bool, depth int)
	seenFn := map[*ssa.Function]bool{}
	walkFn = func(f *ssa.Function, der map[ssa.Value]bool, depth int) {
		if seenFn[f] || depth > 4 {
			return
		}
		seenFn[f] = true
		for _, ff := range allNested(f) {
			instrsOf(ff, func(in ssa.Instruction) {
				switch x := in.(type) {
				case *ssa.Store:
					if der[x.Val] {
						if fa, ok := x.Addr.(*ssa.FieldAddr); ok {
							if _, dup := escaped[fieldKeyAddr(fa)]; !dup {
								escaped[fieldKeyAddr(fa)] = p.instrPos(x)
							}
						}
					}
				case ssa.CallInstruction:
					cc := x.Common()
					if cc.IsInvoke() && isChainIface(p, cc.Value.Type()) {
						return
					}
					var args []ssa.Value
					if cc.IsInvoke() {
						args = append([]ssa.Value{cc.Value}, cc.Args...)
					} else {
						args = cc.Args
					}
					for _, callee := range p.Callees(x) {
						if !p.InUniverse(callee) || callee.Blocks == nil {
							continue
						}
						var sub []ssa.Value
						for i, a := range args {
							if der[a] && i < len(callee.Params) {
								sub = append(sub, callee.Params[i])
							}
						}
						if len(sub) > 0 {
							d2, _ := aliasSets(p, callee, sub)
							walkFn(callee, d2, depth+1)
						}
					}
				}
			})
		}
	}
	walkFn(fn, derived, 0)
	if len(escaped) == 0 {
		return nil
	}
	var out []string
	for _, g := range p.Funcs {
		instrsOf(g, func(in ssa.Instruction) {
			// values loaded from an escaped field, and slices of them
			var fieldOfD func(v ssa.Value, seen map[ssa.Value]bool) string
			fieldOfD = func(v ssa.Value, seen map[ssa.Value]bool) string {
				v = p.origin(v)
				if seen[v] {
					return ""
				}
				seen[v] = true
				switch x := v.(type) {
				case *ssa.Slice:
					if zeroCapSlice(x) {
						return ""
					}
					return fieldOfD(x.X, seen)
				case *ssa.Phi:
					for _, e := range x.Edges {
						if fk := fieldOfD(e, seen); fk != "" {
							return fk
						}
					}
				case *ssa.Call:
					if builtinName(&x.Call) == "append" {
						return fieldOfD(x.Call.Args[0], seen)
					}
				case *ssa.UnOp:
					if x.Op == token.MUL {
						if fa, ok := x.X.(*ssa.FieldAddr); ok {
							if _, esc := escaped[fieldKeyAddr(fa)]; esc {
								return fieldKeyAddr(fa)
							}
						}
					}
				}
				return ""
			}
			fieldOf := func(v ssa.Value) string { return fieldOfD(v, map[ssa.Value]bool{}) }
			switch x := in.(type) {
			case *ssa.Store:
				if ia, ok := x.Addr.(*ssa.IndexAddr); ok {
					if fk := fieldOf(ia.X); fk != "" {
						out = append(out, fmt.Sprintf("element store through %s at %s (in %s); the caller's memory was parked in that field at %s", fk, p.instrPos(x), funcKey(g), escaped[fk]))
					}
				}
			case *ssa.Call:
				switch builtinName(&x.Call) {
				case "append":
					// appending to a shortened re-slice of the parked slice writes into its backing array
					if reslicedShorter(p, x.Call.Args[0]) {
						if fk := fieldOf(x.Call.Args[0]); fk != "" {
							out = append(out, fmt.Sprintf("append to a re-slice of %s at %s (in %s) writes into the caller's backing array; parked at %s", fk, p.instrPos(x), funcKey(g), escaped[fk]))
						}
					}
				case "copy", "clear":
					if fk := fieldOf(x.Call.Args[0]); fk != "" {
						out = append(out, fmt.Sprintf("%s into %s at %s (in %s); parked at %s", builtinName(&x.Call), fk, p.instrPos(x), funcKey(g), escaped[fk]))
					}
				}
			}
		})
	}
	return out
}

// reslicedShorter: v is (a φ / append chain over) a re-slice s[:k] or s[i:j] of some slice — appending to it can write
// into elements of s beyond the new length.
func reslicedShorter(p *Prog, v ssa.Value) bool {
	seen := map[ssa.Value]bool{}
	var walk func(v ssa.Value) bool
	walk = func(v ssa.Value) bool {
		v = p.origin(v)
		if seen[v] {
			return false
		}
		seen[v] = true
		switch x := v.(type) {
		case *ssa.Slice:
			return x.High != nil && !zeroCapSlice(x)
		case *ssa.Phi:
			for _, e := range x.Edges {
				if walk(e) {
					return true
				}
			}
		case *ssa.Call:
			if builtinName(&x.Call) == "append" {
				return walk(x.Call.Args[0])
			}
		}
		return false
	}
	return walk(v)
}

// delegatedReader: the closure contains exactly one call of a repository function that receives the wrapped reader and
// the caller's buffer, and every return of the closure returns that call's results unchanged. Returns the callee viewed
// as the per-packet function (its parameters take the roles of the downstream and the buffer).
func delegatedReader(p *Prog, c *PktClosure) *PktClosure {
	if c.depth >= 2 {
		return nil
	}
	params := packetParams(c)
	var call *ssa.Call
	n := 0
	instrsOf(c.Fn, func(in ssa.Instruction) {
		cl, ok := in.(*ssa.Call)
		if !ok {
			return
		}
		g := cl.Call.StaticCallee()
		if g == nil || !p.InUniverse(g) || g.Blocks == nil {
			return
		}
		for _, a := range cl.Call.Args {
			if p.isNextValue(c, a) {
				call = cl
				n++
				return
			}
		}
	})
	if n != 1 {
		return nil
	}
	g := call.Call.StaticCallee()
	var next *ssa.Parameter
	pkt := make([]*ssa.Parameter, len(params))
	for i, a := range call.Call.Args {
		if i >= len(g.Params) {
			break
		}
		if p.isNextValue(c, a) {
			next = g.Params[i]
		}
		for j, pp := range params {
			if p.originFullSlice(a) == ssa.Value(pp) {
				pkt[j] = g.Params[i]
			}
		}
	}
	if next == nil {
		return nil
	}
	for _, x := range pkt {
		if x == nil {
			return nil
		}
	}
	// every return hands back the call's results, in order
	for _, b := range c.Fn.Blocks {
		ret, ok := b.Instrs[len(b.Instrs)-1].(*ssa.Return)
		if !ok || b == c.Fn.Recover {
			continue
		}
		for i, r := range ret.Results {
			ex, ok := p.origin(r).(*ssa.Extract)
			if !ok || ex.Tuple != ssa.Value(call) || ex.Index != i {
				return nil
			}
		}
	}
	return &PktClosure{Fn: g, Kind: c.Kind, Next: next, Pkt: pkt, depth: c.depth + 1, Owner: c.Owner, Conv: c.Conv}
}


// helperSlicesToLength: the call hands a repository function the read buffer and, in another argument, the length read;
// in the callee every use of the buffer parameter is a slice expression bounded by that length parameter (or len/cap).
func helperSlicesToLength(p *Prog, call *ssa.Call, B ssa.Value, isN func(ssa.Value) bool) bool {
	h := call.Call.StaticCallee()
	if h == nil || !p.InUniverse(h) || h.Blocks == nil {
		return false
	}
	bi, ni := -1, -1
	for i, a := range call.Call.Args {
		if p.origin(a) == B {
			bi = i
		} else if p.backwardReaches(a, isN) {
			if bt, ok := a.Type().Underlying().(*types.Basic); ok && bt.Info()&types.IsInteger != 0 {
				ni = i
			}
		}
	}
	if bi < 0 || ni < 0 || bi >= len(h.Params) || ni >= len(h.Params) {
		return false
	}
	bp, np := ssa.Value(h.Params[bi]), ssa.Value(h.Params[ni])
	ok := true
	for _, f := range allNested(h) {
		instrsOf(f, func(in ssa.Instruction) {
			for _, op := range in.Operands(nil) {
				if *op == nil || p.origin(*op) != bp {
					continue
				}
				switch x := in.(type) {
				case *ssa.UnOp, *ssa.DebugRef:
				case *ssa.Store:
					if _, isAlloc := cellAddr(x.Addr).(*ssa.Alloc); !isAlloc || x.Val != *op {
						ok = false
					}
				case *ssa.Slice:
					if x.High == nil || p.origin(x.High) != np {
						ok = false
					}
				case *ssa.Call:
					if b, isB := x.Call.Value.(*ssa.Builtin); !isB || (b.Name() != "len" && b.Name() != "cap") {
						ok = false
					}
				default:
					ok = false
				}
			}
		})
	}
	return ok
}

// lengthThroughHelper: the length returned is result k of a repository helper that was handed the read's length n as
// an argument, and every return of the helper gives that parameter (or the constant 0) as result k.
func lengthThroughHelper(p *Prog, nV ssa.Value, n0 ssa.Value) bool {
	ex, ok := p.origin(nV).(*ssa.Extract)
	if !ok {
		return false
	}
	call, ok := ex.Tuple.(*ssa.Call)
	if !ok {
		return false
	}
	h := call.Call.StaticCallee()
	if h == nil || !p.InUniverse(h) || h.Blocks == nil {
		return false
	}
	pi := -1
	for i, a := range call.Call.Args {
		if p.origin(a) == n0 && i < len(h.Params) {
			pi = i
		}
	}
	if pi < 0 {
		return false
	}
	par := ssa.Value(h.Params[pi])
	for _, b := range h.Blocks {
		ret, isRet := b.Instrs[len(b.Instrs)-1].(*ssa.Return)
		if !isRet || b == h.Recover || ex.Index >= len(ret.Results) {
			continue
		}
		r := returnedValue(ret, ex.Index)
		if p.origin(r) == par {
			continue
		}
		if c, isC := r.(*ssa.Const); isC && c.Value != nil && c.Value.String() == "0" {
			continue
		}
		return false
	}
	return true
}
