package main

import (
	"fmt"
	"go/token"
	"sort"
	"strings"

	"golang.org/x/tools/go/ssa"
)

// W2 (down-counting loops) — a loop that walks a slice from the back (`for i := len(s)-1; i >= lo; i--`, s[i] in the
// body) stops at a lower bound that cannot be negative: a constant (>= 0, > -1), or a value the function has compared
// with zero / built with max(…, 0). A bound of the form len(s) − k with k a window size from elsewhere (a configured
// history length) is negative whenever fewer than k entries exist, and the walk ends at s[-1].
func w2DownLoops(p *Prog, o *obls) {
	n := 0
	for _, fn := range p.Funcs {
		if fn.Blocks == nil || !p.InUniverse(fn) {
			continue
		}
		var bad []string
		sites := 0
		seen := map[*ssa.Phi]bool{}
		instrsOf(fn, func(in ssa.Instruction) {
			ia, ok := in.(*ssa.IndexAddr)
			if !ok {
				return
			}
			phi, ok := p.origin(ia.Index).(*ssa.Phi)
			if !ok || seen[phi] {
				return
			}
			down := false
			for _, e := range phi.Edges {
				if bo, ok := e.(*ssa.BinOp); ok && bo.Op == token.SUB && bo.X == ssa.Value(phi) && isConstInt(bo.Y, 1) {
					down = true
				}
			}
			if !down {
				return
			}
			cond, ok := ifCond(phi.Block()).(*ssa.BinOp)
			if !ok {
				return
			}
			var lo ssa.Value
			strict := false
			switch {
			case cond.Op == token.GEQ && cond.X == ssa.Value(phi):
				lo = cond.Y
			case cond.Op == token.GTR && cond.X == ssa.Value(phi):
				lo, strict = cond.Y, true
			case cond.Op == token.LEQ && cond.Y == ssa.Value(phi):
				lo = cond.X
			case cond.Op == token.LSS && cond.Y == ssa.Value(phi):
				lo, strict = cond.X, true
			default:
				return
			}
			seen[phi] = true
			if c, isC := constInt(lo); isC {
				sites++
				if c < 0 && !(strict && c == -1) {
					bad = append(bad, fmt.Sprintf("the walk at %s indexes down to the constant %d", p.instrPos(ia), c))
				}
				return
			}
			// only the classic shape is judged: len(s) − k
			sub, ok := p.origin(lo).(*ssa.BinOp)
			if !ok || sub.Op != token.SUB {
				return
			}
			ln, ok := p.origin(sub.X).(*ssa.Call)
			if !ok || builtinName(&ln.Call) != "len" {
				return
			}
			sites++
			k := sub.Y
			if _, isC := constInt(k); isC {
				// len(s) − c: safe only behind a comparison of the length
			}
			// k itself is min(len(s), …), or the function compared k (or the bound) with the length / zero on the way
			if kc, isCall := p.origin(k).(*ssa.Call); isCall && builtinName(&kc.Call) == "min" {
				for _, a := range kc.Call.Args {
					if a2, isLen := p.origin(a).(*ssa.Call); isLen && builtinName(&a2.Call) == "len" && p.pureKey(a2.Call.Args[0]) == p.pureKey(ln.Call.Args[0]) {
						return
					}
				}
			}
			pre := phi.Block()
			for i, pr := range phi.Block().Preds {
				if !phi.Block().Dominates(pr) {
					pre = phi.Block().Preds[i]
				}
			}
			for _, f := range dominatingFacts(pre) {
				b2, ok := normFact(f).cond.(*ssa.BinOp)
				if !ok {
					continue
				}
				switch b2.Op {
				case token.LSS, token.LEQ, token.GTR, token.GEQ:
				default:
					continue
				}
				kx, ky := p.pureKey(b2.X), p.pureKey(b2.Y)
				kk, kl, klo := p.pureKey(k), p.pureKey(ln), p.pureKey(lo)
				if (kx == kk && ky == kl) || (kx == kl && ky == kk) || kx == klo || ky == klo {
					return
				}
			}
			bad = append(bad, fmt.Sprintf("the walk at %s indexes down to len(…) − %s, and nothing on the way compares the two: with fewer entries than that the bound is negative", p.instrPos(ia), shortExpr(p, k)))
		})
		if sites == 0 {
			continue
		}
		n++
		key := funcKey(fn) + ":down-loop"
		if len(bad) > 0 {
			sort.Strings(bad)
			o.bad("W2", key, strings.Fields(strings.SplitN(bad[0], " at ", 2)[1])[0], strings.Join(dedupe(bad), "; ")+": the loop ends at index -1, which panics")
		} else {
			o.ok("W2", key, p.Pos(fn.Pos()), fmt.Sprintf("%d walk(s) from the back of a slice, each down to a bound that cannot be negative", sites))
		}
	}
	o.ok("W2", "down-loops-inspected", "-", fmt.Sprintf("%d function(s) that walk a slice from the back", n))
}
