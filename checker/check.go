package main

import (
	"encoding/json"
	"fmt"
	"os"
	"sort"
	"strings"
	"time"
)

type violationFile struct {
	Property string     `json:"property"`
	Key      string     `json:"key"`
	Obl      Obligation `json:"obligation"`
	Config   string     `json:"configuration"`
	Hint     string     `json:"replay_hint"`
}

type configRun struct {
	name string
	env  []string
	tags string
	vta  bool
}

func configsFor(tier string) []configRun {
	if tier == "thorough" {
		return []configRun{
			{name: "default/cha"},
			{name: "default/vta", vta: true},
			{name: "GOARCH=386/cha", env: []string{"GOARCH=386"}},
			{name: "tags=verif/cha", tags: "verif"},
		}
	}
	return []configRun{{name: "default/cha"}}
}

// checkProperty runs the rules of one property on /repo and the fixtures, writes evidence, prints the verdict lines
// and returns the exit code.
func checkProperty(pd *propDef, repo, tier string, seed int, controls bool, start time.Time) int {
	rules := rulesOf(pd)
	known, err := loadKnown(verifDir + "/known_findings.json")
	if err != nil {
		fmt.Fprintln(os.Stderr, "known_findings.json:", err)
		return 2
	}
	var fatal []string
	type cfgResult struct {
		name string
		obls []Obligation
	}
	var results []cfgResult
	var nFuncs, nPkgs int
	var renameNotes []string
	for _, cf := range configsFor(tier) {
		p, err := Load(repo, cf.env, cf.tags, nil)
		if err != nil {
			fatal = append(fatal, fmt.Sprintf("[%s] %v", cf.name, err))
			continue
		}
		p.UseVTA = cf.vta
		all, panics := runEngines(p, rules)
		fatal = append(fatal, panics...)
		results = append(results, cfgResult{cf.name, selectObls(all, pd.sels)})
		if nFuncs == 0 {
			nFuncs, nPkgs = len(p.Funcs), len(p.Universe)
			renameNotes = p.RenameNotes
		}
	}
	var primary []Obligation
	if len(results) > 0 {
		primary = results[0].obls
	}
	// verdicts must agree across configurations; a disagreement is undecided
	disagreements := 0
	if len(results) > 1 {
		base := map[string]Verdict{}
		for _, ob := range primary {
			base[ob.Key] = ob.Verdict
		}
		for _, r := range results[1:] {
			seen := map[string]bool{}
			for _, ob := range r.obls {
				seen[ob.Key] = true
				bv, ok := base[ob.Key]
				if !ok {
					// obligation only present in another configuration: include it
					ob.Witness = "[" + r.name + "] " + ob.Witness
					primary = append(primary, ob)
					base[ob.Key] = ob.Verdict
					continue
				}
				if bv != ob.Verdict {
					disagreements++
					for i := range primary {
						if primary[i].Key == ob.Key && primary[i].Verdict != Violated {
							if ob.Verdict == Violated {
								primary[i] = ob
								primary[i].Witness = "[" + r.name + "] " + ob.Witness
							} else {
								primary[i].Verdict = Undecided
								primary[i].Witness = fmt.Sprintf("verdict differs between configurations (%s: %s): %s", r.name, ob.Verdict, primary[i].Witness)
							}
						}
					}
				}
			}
		}
		sortObls(primary)
	}

	// every selector must resolve to at least one obligation (anchor floor)
	for _, sl := range pd.sels {
		n := 0
		for _, ob := range primary {
			if sl.selects(ob) {
				n++
			}
		}
		if n == 0 && len(results) > 0 && !sl.opt {
			pat := ""
			if sl.match != nil {
				pat = " /" + sl.match.String() + "/"
			}
			fatal = append(fatal, fmt.Sprintf("anchor unresolved: rule %s%s matched no construct (checker needs update)", sl.rule, pat))
		}
	}

	var ctrl []controlResult
	if controls {
		var problems []string
		ctrl, problems = runControls(rules)
		for _, pr := range problems {
			fatal = append(fatal, "control: "+pr)
		}
	}

	// classify
	knownByKey := map[string]KnownFinding{}
	for _, k := range known {
		if k.Status == "known" {
			knownByKey[k.Key] = k
		}
	}
	var newViol, knownHit, undec []Obligation
	for _, ob := range primary {
		switch ob.Verdict {
		case Violated:
			if _, ok := knownByKey[ob.Key]; ok {
				knownHit = append(knownHit, ob)
			} else {
				newViol = append(newViol, ob)
			}
		case Undecided:
			undec = append(undec, ob)
		}
	}

	os.MkdirAll(verifDir+"/evidence/violations", 0o755)
	exit := 0
	for _, ob := range knownHit {
		fmt.Printf("KNOWN-FINDING: property=%s %s [%s at %s]\n", pd.id, knownByKey[ob.Key].What, ob.Key, ob.Pos)
	}
	emit := func(ob Obligation, kind string) {
		path := fmt.Sprintf("%s/evidence/violations/%s-%s.json", verifDir, pd.id, shortHash(ob.Key))
		writeJSON(path, violationFile{Property: pd.id, Key: ob.Key, Obl: ob, Config: tier,
			Hint: fmt.Sprintf("%s/bin/ivcheck -replay %s", verifDir, path)})
		fmt.Printf("%s: %s at %s: %s\n", kind, ob.Key, ob.Pos, ob.Witness)
		fmt.Printf("VIOLATION property=%s replay=%s\n", pd.id, path)
		exit = 1
	}
	if len(renameNotes) > 0 && len(newViol)+len(undec) > 0 {
		fmt.Printf("note: keys below use the names of the confirmed tree; %d renamed entities were mapped back:\n", len(renameNotes))
		for _, n := range renameNotes {
			fmt.Println("  " + n)
		}
	}
	for _, ob := range newViol {
		emit(ob, "violated")
	}
	for _, ob := range undec {
		emit(ob, "undecided (fails the check)")
	}
	for _, f := range fatal {
		path := fmt.Sprintf("%s/evidence/violations/%s-checker-%s.json", verifDir, pd.id, shortHash(f))
		writeJSON(path, map[string]string{"property": pd.id, "checker_failure": f})
		fmt.Printf("checker failure: %s\n", f)
		fmt.Printf("VIOLATION property=%s replay=%s\n", pd.id, path)
		exit = 1
	}

	// evidence
	nontrivial := 0
	distinct := map[string]bool{}
	perRule := map[string][3]int{}
	for _, ob := range primary {
		if ob.Verdict == Noted {
			continue
		}
		pr := perRule[ob.Rule]
		pr[0]++
		if ob.Verdict == Discharged {
			pr[1]++
		}
		if ob.Verdict == Violated {
			pr[2]++
		}
		perRule[ob.Rule] = pr
		if !ob.Trivial && !distinct[ob.Key] {
			distinct[ob.Key] = true
			nontrivial++
		}
	}
	nObl, nDis := 0, 0
	var notes []Obligation
	for _, ob := range primary {
		if ob.Verdict == Noted {
			notes = append(notes, ob)
			continue
		}
		nObl++
		if ob.Verdict == Discharged {
			nDis++
		}
	}
	samples := sampleObls(primary, 40)
	var kf []map[string]string
	for _, ob := range knownHit {
		kf = append(kf, map[string]string{"key": ob.Key, "pos": ob.Pos, "what": knownByKey[ob.Key].What, "witness": ob.Witness})
	}
	var cfgNames []string
	for _, r := range results {
		cfgNames = append(cfgNames, r.name)
	}
	ruleCounts := map[string]map[string]int{}
	for r, c := range perRule {
		ruleCounts[r] = map[string]int{"obligations": c[0], "discharged": c[1], "violated": c[2]}
	}
	ev := Evidence{PropertyID: pd.id, Tier: tier, Seed: seed, Level: "other",
		Coverage: map[string]any{
			"explanation":              pd.explanation,
			"not_decided":              pd.notDecided,
			"obligations":              nObl,
			"discharged":               nDis,
			"evaluations":              nObl,
			"distinct_nontrivial":      nontrivial,
			"rule":                     "one obligation per (rule, construct) discovered in /repo's type-checked SSA; non-trivial = needed a path, lockset, flow or call-graph argument (pass-through exits and notes are trivial); distinct by construct key",
			"samples":                  samples,
			"per_rule":                 ruleCounts,
			"rules":                    rules,
			"packages":                 nPkgs,
			"functions_analysed":       nFuncs,
			"configurations":           cfgNames,
			"configuration_disagreements": disagreements,
			"known_findings":           kf,
			"new_violations":           len(newViol),
			"undecided":                len(undec),
			"checker_failures":         fatal,
			"controls":                 ctrl,
			"notes":                    notes,
			"renamed_anchors":          renameNotes,
			"exhaustive":               false,
		},
		Assumptions: pd.assumptions,
		WallS:       time.Since(start).Seconds(),
		Violations:  len(newViol) + len(undec) + len(fatal),
	}
	if tier == "thorough" {
		ev.Coverage["mutants"] = runMutants(pd, rules, repo)
		ev.WallS = time.Since(start).Seconds()
	}
	if err := writeJSON(fmt.Sprintf("%s/evidence/%s.json", verifDir, pd.id), ev); err != nil {
		fmt.Fprintln(os.Stderr, "evidence:", err)
		return 2
	}
	fmt.Printf("%s %s: %d obligations, %d discharged, %d known findings, %d new violations, %d undecided, %d checker failures (%.1fs)\n",
		pd.id, tier, nObl, nDis, len(knownHit), len(newViol), len(undec), len(fatal), time.Since(start).Seconds())
	return exit
}

// sampleObls picks a deterministic spread of obligations: every violated/undecided one and a stride over the rest.
func sampleObls(l []Obligation, n int) []Obligation {
	var out []Obligation
	var rest []Obligation
	for _, ob := range l {
		if ob.Verdict == Violated || ob.Verdict == Undecided {
			out = append(out, ob)
		} else if ob.Verdict == Discharged && !ob.Trivial {
			rest = append(rest, ob)
		}
	}
	if len(out) > n {
		out = out[:n]
	}
	// at least one per rule, then stride
	seenRule := map[string]bool{}
	for _, ob := range rest {
		if !seenRule[ob.Rule] {
			seenRule[ob.Rule] = true
			out = append(out, ob)
		}
	}
	if len(rest) > 0 {
		step := len(rest)/n + 1
		for i := 0; i < len(rest) && len(out) < 2*n; i += step {
			out = append(out, rest[i])
		}
	}
	sort.SliceStable(out, func(i, j int) bool { return out[i].Key < out[j].Key })
	// dedupe
	var dd []Obligation
	for i, ob := range out {
		if i > 0 && ob.Key == out[i-1].Key {
			continue
		}
		dd = append(dd, ob)
	}
	return dd
}

func doReplay(repo, path string) int {
	b, err := os.ReadFile(path)
	if err != nil {
		fmt.Fprintln(os.Stderr, err)
		return 2
	}
	var vf violationFile
	if err := json.Unmarshal(b, &vf); err != nil || vf.Property == "" {
		fmt.Println(strings.TrimSpace(string(b)))
		return 1
	}
	pd := props[vf.Property]
	if pd == nil {
		fmt.Fprintln(os.Stderr, "unknown property in replay file")
		return 2
	}
	p, err := Load(repo, nil, "", nil)
	if err != nil {
		fmt.Fprintln(os.Stderr, err)
		return 2
	}
	all, panics := runEngines(p, []string{ruleOfKey(vf.Key)})
	for _, pn := range panics {
		fmt.Println("checker failure:", pn)
	}
	for _, ob := range all {
		if ob.Key == vf.Key {
			fmt.Printf("%s %s at %s\n  %s\n", ob.Verdict, ob.Key, ob.Pos, ob.Witness)
			if ob.Verdict == Violated || ob.Verdict == Undecided {
				return 1
			}
			return 0
		}
	}
	fmt.Printf("obligation %s no longer exists on the current tree\n", vf.Key)
	return 0
}
