package main

import (
	"fmt"
	"go/token"
	"go/types"
	"sort"
	"strings"

	"golang.org/x/tools/go/ssa"
)

// Engine B — ownership / retention of caller memory (DESIGN.md §3 B): forward taint from the caller's header, payload
// and read buffer to anything that outlives the call.

func init() {
	registerEngine("B", []string{"B"}, runEngineB)
}

// permittedRetainers: functions allowed to keep what they are given, one reason each.
var permittedRetainers = map[string]string{
	"(*github.com/pion/interceptor/internal/rtpbuffer.PacketFactoryNoOp).NewPacket": "documented DisableCopy opt-out of the NACK responder",
	"(github.com/pion/interceptor.Attributes).Set":                                  "per-packet attributes map travels with the packet",
	"(github.com/pion/interceptor.Attributes).GetRTPHeader":                         "parse cache in the per-packet attributes (aliasing inside pion/rtp parsing is a stated limitation)",
	"(github.com/pion/interceptor.Attributes).GetRTCPPackets":                       "parse cache in the per-packet attributes",
	"(*fixtures/fx.GoodBOptOut).keep":                                               "fixture: documented opt-out",
}

// optOutViaConfiguration: retainers that are permitted because the *user* chose them through an option; the permission
// holds where the choice is honoured — a call through the configured interface value — not where the library picks the
// non-copying implementation itself (a locally built PacketFactoryNoOp used as a fallback when the copying factory
// refuses a packet keeps the caller's header and payload although DisableCopy was never given).
var optOutViaConfiguration = map[string]bool{
	"(*github.com/pion/interceptor/internal/rtpbuffer.PacketFactoryNoOp).NewPacket": true,
}

// parseCacheResults: permitted retainers whose result refers to the buffer passed in.
var parseCacheResults = map[string]bool{
	"(github.com/pion/interceptor.Attributes).GetRTPHeader":   true,
	"(github.com/pion/interceptor.Attributes).GetRTCPPackets": true,
}

// externalSinks: library calls that retain an argument (index counts the receiver as 0).
var externalSinks = map[string]int{
	"(*sync.Pool).Put": 1, "(*container/list.List).PushBack": 1, "(*container/list.List).PushFront": 1,
	"(*container/list.List).InsertBefore": 1, "(*container/list.List).InsertAfter": 1,
	"(*sync.Map).Store": 2, "(*sync.Map).LoadOrStore": 2, "(*sync.Map).Swap": 2, "(*sync/atomic.Value).Store": 1,
}

// freshResult: external methods whose result does not alias the receiver/arguments.
var freshResult = map[string]bool{"Clone": true, "Marshal": true, "MarshalSize": true, "String": true, "Error": true, "Len": true, "DestinationSSRC": true}

type taintSummary struct {
	retains      []string // witnesses
	returnsAlias bool
}

type taintCtx struct {
	p     *Prog
	cache map[string]*taintSummary
	stack map[string]bool
	read  map[*types.Var]bool // struct fields that are read (or whose address is used for anything but a store) somewhere
}

// deadField: no function of the repository ever loads the field or lets its address escape.
func (tc *taintCtx) deadField(fv *types.Var) bool {
	if fv == nil {
		return false
	}
	if tc.read == nil {
		tc.read = map[*types.Var]bool{}
		for _, fn := range tc.p.Funcs {
			instrsOf(fn, func(in ssa.Instruction) {
				switch x := in.(type) {
				case *ssa.Field:
					if st, ok := x.X.Type().Underlying().(*types.Struct); ok {
						tc.read[st.Field(x.Field)] = true
					}
				case *ssa.FieldAddr:
					if x.Referrers() == nil {
						return
					}
					for _, r := range *x.Referrers() {
						if st, ok := r.(*ssa.Store); ok && st.Addr == ssa.Value(x) {
							continue
						}
						if _, ok := r.(*ssa.DebugRef); ok {
							continue
						}
						if f := fieldOfAddr(x); f != nil {
							tc.read[f] = true
						}
					}
				case *ssa.UnOp:
					// a load of the whole struct reads all its fields
					if x.Op == token.MUL {
						if st, ok := x.Type().Underlying().(*types.Struct); ok && x.Referrers() != nil {
							// copying the struct around (send, store, argument of a repository function, return) inspects
							// nothing; boxing it, comparing it or handing it to code outside the repository may
							whole := false
							for _, r := range *x.Referrers() {
								switch r := r.(type) {
								case *ssa.MakeInterface, *ssa.BinOp:
									whole = true
								case ssa.CallInstruction:
									if sc := r.Common().StaticCallee(); sc == nil || !tc.p.InUniverse(sc) {
										whole = true
									}
								}
							}
							if whole {
								for i := 0; i < st.NumFields(); i++ {
									tc.read[st.Field(i)] = true
								}
							}
						}
					}
				}
			})
		}
	}
	return !tc.read[fv]
}

// rtcpCopyingType: RTCP packet types of pion/rtcp v1.2.17 whose Unmarshal copies everything out of its input (typed
// fields, freshly built slices, strings): an object of such a type obtained from the parse cache does not refer to the
// read buffer. Raw, application-defined, sender/receiver reports (profile extensions) and extended reports do.
func rtcpCopyingType(t types.Type) bool {
	switch typeKey(deref(t)) {
	case "github.com/pion/rtcp.TransportLayerNack", "github.com/pion/rtcp.TransportLayerCC", "github.com/pion/rtcp.PictureLossIndication",
		"github.com/pion/rtcp.FullIntraRequest", "github.com/pion/rtcp.CCFeedbackReport", "github.com/pion/rtcp.Goodbye",
		"github.com/pion/rtcp.SourceDescription", "github.com/pion/rtcp.RapidResynchronizationRequest",
		"github.com/pion/rtcp.ReceiverEstimatedMaximumBitrate", "github.com/pion/rtcp.SliceLossIndication":
		return true
	}
	return false
}

func refish(t types.Type) bool { return isRefType(t) || containsRefs(t) || isIface(t) }

func isIface(t types.Type) bool {
	_, ok := t.Underlying().(*types.Interface)
	return ok
}

func isByteSlice(t types.Type) bool {
	s, ok := t.Underlying().(*types.Slice)
	return ok && types.Identical(s.Elem(), types.Typ[types.Byte])
}

// analyse runs the taint analysis of fn with the given parameters (indices) tainted.
func (tc *taintCtx) analyse(fn *ssa.Function, params []int, freeTainted map[*ssa.FreeVar]bool) *taintSummary {
	key := fmt.Sprintf("%p:%v", fn, params)
	if len(freeTainted) == 0 {
		if s, ok := tc.cache[key]; ok {
			return s
		}
		if tc.stack[key] {
			return &taintSummary{}
		}
		tc.stack[key] = true
		defer delete(tc.stack, key)
	}
	p := tc.p
	sum := &taintSummary{}
	tainted := map[ssa.Value]bool{}
	carrier := map[ssa.Value]bool{} // local allocations (Alloc, MakeMap, MakeSlice) holding tainted references
	for _, i := range params {
		if i < len(fn.Params) {
			tainted[fn.Params[i]] = true
		}
	}
	for fv := range freeTainted {
		tainted[fv] = true
	}
	localRoot := func(addr ssa.Value) ssa.Value {
		r := cellAddr(addrRoot(addr))
		switch r.(type) {
		case *ssa.Alloc, *ssa.MakeMap, *ssa.MakeSlice:
			return r
		}
		// a slice of a local array
		if sl, ok := r.(*ssa.Slice); ok {
			if al, ok := cellAddr(addrRoot(sl.X)).(*ssa.Alloc); ok {
				return al
			}
		}
		return nil
	}
	sink := func(in ssa.Instruction, what string) {
		sum.retains = append(sum.retains, fmt.Sprintf("%s at %s (in %s)", what, p.instrPos(in), funcKey(fn)))
	}
	changed := true
	mark := func(v ssa.Value) {
		if v != nil && !tainted[v] {
			tainted[v] = true
			changed = true
		}
	}
	markCarrier := func(v ssa.Value) {
		if v != nil && !carrier[v] {
			carrier[v] = true
			changed = true
		}
		mark(v)
	}
	reported := map[ssa.Instruction]bool{}
	report := func(in ssa.Instruction, what string) {
		if !reported[in] {
			reported[in] = true
			sink(in, what)
		}
	}
	for iter := 0; changed && iter < 40; iter++ {
		changed = false
		instrsOf(fn, func(in ssa.Instruction) {
			switch x := in.(type) {
			case *ssa.Slice:
				if tainted[x.X] {
					mark(x)
				}
			case *ssa.FieldAddr:
				if tainted[x.X] {
					mark(x)
				}
			case *ssa.IndexAddr:
				if tainted[x.X] {
					mark(x)
				}
			case *ssa.Field:
				if tainted[x.X] && refish(x.Type()) {
					mark(x)
				}
			case *ssa.Index:
				if tainted[x.X] && refish(x.Type()) {
					mark(x)
				}
			case *ssa.Lookup:
				if tainted[x.X] && refish(x.Type()) {
					mark(x)
				}
			case *ssa.UnOp:
				if x.Op == token.MUL {
					if refish(x.Type()) {
						if tainted[x.X] {
							mark(x) // load of a reference (or a struct with references) out of tainted memory: alias / shallow copy
						}
						if r := localRoot(x.X); r != nil && carrier[r] {
							mark(x)
						}
					}
				}
			case *ssa.Phi:
				for _, e := range x.Edges {
					if tainted[e] {
						mark(x)
					}
				}
			case *ssa.ChangeType:
				if tainted[x.X] {
					mark(x)
				}
			case *ssa.ChangeInterface:
				if tainted[x.X] {
					mark(x)
				}
			case *ssa.Convert:
				// []byte→string and back copy
			case *ssa.MakeInterface:
				if tainted[x.X] {
					mark(x)
				}
			case *ssa.TypeAssert:
				if tainted[x.X] && !rtcpCopyingType(x.AssertedType) {
					mark(x)
				}
			case *ssa.Extract:
				if tainted[x.Tuple] && refish(x.Type()) {
					mark(x)
				}
			case *ssa.MakeClosure:
				for _, b := range x.Bindings {
					if tainted[b] {
						mark(x)
					}
				}
			case *ssa.Store:
				if !tainted[x.Val] {
					return
				}
				if r := localRoot(x.Addr); r != nil {
					if fa, ok := x.Addr.(*ssa.FieldAddr); ok && tc.deadField(fieldOfAddr(fa)) {
						return // parked in a field nothing ever reads: kept, but without effect on anything emitted or recorded
					}
					markCarrier(r)
					return
				}
				if tainted[x.Addr] || tainted[addrRoot(x.Addr)] {
					return // writing a caller-derived reference back into caller memory retains nothing new
				}
				report(x, fmt.Sprintf("caller memory stored into %s, which outlives the call", describeAddr(p, x.Addr)))
			case *ssa.MapUpdate:
				if !tainted[x.Value] && !tainted[x.Key] {
					return
				}
				if r := localRoot(x.Map); r != nil {
					markCarrier(r)
					return
				}
				if _, isMM := x.Map.(*ssa.MakeMap); isMM {
					markCarrier(x.Map)
					return
				}
				report(x, fmt.Sprintf("caller memory stored into map %s", valueString(x.Map)))
			case *ssa.Send:
				if tainted[x.X] {
					report(x, "caller memory sent on a channel (handed to another goroutine)")
				}
			case *ssa.Select:
				for _, st := range x.States {
					if st.Dir == types.SendOnly && tainted[st.Send] {
						report(x, "caller memory sent on a channel (handed to another goroutine)")
					}
				}
			case *ssa.Return:
				for _, r := range x.Results {
					if tainted[r] {
						sum.returnsAlias = true
					}
				}
			case ssa.CallInstruction:
				tc.call(fn, x, tainted, mark, markCarrier, report, carrier)
			}
		})
	}
	if len(freeTainted) == 0 {
		tc.cache[key] = sum
	}
	return sum
}

func describeAddr(p *Prog, addr ssa.Value) string {
	if fa, ok := addr.(*ssa.FieldAddr); ok {
		return "field " + fieldKeyAddr(fa)
	}
	if ia, ok := addr.(*ssa.IndexAddr); ok {
		return "an element of " + valueString(ia.X)
	}
	if g, ok := addr.(*ssa.Global); ok {
		return "global " + g.Name()
	}
	return valueString(addr)
}

func (tc *taintCtx) call(fn *ssa.Function, ci ssa.CallInstruction, tainted map[ssa.Value]bool, mark func(ssa.Value), markCarrier func(ssa.Value), report func(ssa.Instruction, string), carrier map[ssa.Value]bool) {
	p := tc.p
	cc := ci.Common()
	val, _ := ci.(ssa.Value)
	var args []ssa.Value
	if cc.IsInvoke() {
		args = append([]ssa.Value{cc.Value}, cc.Args...)
	} else {
		args = cc.Args
	}
	var taintedIdx []int
	for i, a := range args {
		if tainted[a] {
			taintedIdx = append(taintedIdx, i)
		}
	}
	if b, ok := cc.Value.(*ssa.Builtin); ok {
		switch b.Name() {
		case "append":
			if val == nil {
				return
			}
			if tainted[args[0]] && !zeroCapSlice(args[0]) {
				mark(val)
			}
			if len(args) > 1 && tainted[args[1]] {
				if st, ok := args[1].Type().Underlying().(*types.Slice); ok && refish(st.Elem()) {
					mark(val)
				}
			}
		}
		return
	}
	if len(taintedIdx) == 0 && parseCacheResults[calleeName(cc)] && val != nil && len(args) > 0 {
		// the parse cache answers from what it holds, whatever bytes it is given now: attributes that came with the
		// packet (not a map made here) may carry an inner interceptor's parse of the *caller's* buffer, and that is
		// what comes back even when a private copy is passed in
		if _, fresh := p.origin(args[0]).(*ssa.MakeMap); !fresh {
			mark(val)
		}
		return
	}
	if len(taintedIdx) == 0 {
		// closures that captured tainted values and are called / go'd here
		if mc, ok := cc.Value.(*ssa.MakeClosure); ok && tainted[mc] {
			tc.closureCall(ci, mc, tainted, report)
		}
		return
	}
	if _, isGo := ci.(*ssa.Go); isGo {
		report(ci, "caller memory passed to a goroutine")
		return
	}
	name := calleeName(cc)
	if _, ok := permittedRetainers[name]; ok && (cc.IsInvoke() || !optOutViaConfiguration[name]) {
		// the parse caches hand back objects that point into the bytes they were given (extension payloads of a
		// header; raw, application-defined and profile-extension parts of RTCP packets): keeping the attributes map is
		// the contract, but what comes out of it is still the caller's memory
		if parseCacheResults[name] && val != nil {
			mark(val)
		}
		return
	}
	if cc.IsInvoke() && isChainIface(p, cc.Value.Type()) {
		return // the synchronous call to the next writer / wrapped reader is the contract of the chain
	}
	if idx, ok := externalSinks[name]; ok {
		if idx < len(args) && tainted[args[idx]] {
			report(ci, "caller memory put into a long-lived container by "+shortCallee(name))
		}
		return
	}
	callees := p.Callees(ci)
	handled := false
	for _, c := range callees {
		if !p.InUniverse(c) || c.Blocks == nil {
			continue
		}
		if _, ok := permittedRetainers[fullFuncName(c)]; ok && (cc.IsInvoke() || !optOutViaConfiguration[fullFuncName(c)]) {
			handled = true
			continue
		}
		handled = true
		var idxs []int
		for _, i := range taintedIdx {
			if i < len(c.Params) {
				idxs = append(idxs, i)
			}
		}
		s := tc.analyse(c, idxs, nil)
		for _, w := range s.retains {
			report(ci, w+" ← "+p.instrPos(ci))
		}
		if s.returnsAlias && val != nil {
			mark(val)
		}
	}
	if handled {
		return
	}
	// parsers of pion/rtp keep slices of their input in the receiver (payload, extension payloads): the object
	// parsed into now refers to the caller's bytes
	if externalParsers[name] && len(args) >= 2 && tainted[args[1]] {
		mark(args[0])
		markCarrier(args[0])
		if u, ok := args[0].(*ssa.UnOp); ok {
			mark(u.X)
		}
	}
	// external callee (or no body): result may alias a tainted receiver/argument unless it is known to be fresh
	if val != nil {
		n := ""
		if sc := cc.StaticCallee(); sc != nil {
			n = sc.Name()
		} else if cc.IsInvoke() {
			n = cc.Method.Name()
		}
		n = strings.SplitN(n, "[", 2)[0] // slices.Clone[[]byte]: the instantiation of a generic function
		if !freshResult[n] && refishResult(val.Type()) {
			// only receivers and slice/pointer arguments can be aliased by the result
			mark(val)
		}
	}
}

// externalParsers: non-repository methods that store sub-slices of their argument in their receiver (pion/rtp v1.10.5).
var externalParsers = map[string]bool{
	"(*github.com/pion/rtp.Packet).Unmarshal": true,
	"(*github.com/pion/rtp.Header).Unmarshal": true,
}

func refishResult(t types.Type) bool {
	if tup, ok := t.(*types.Tuple); ok {
		for i := 0; i < tup.Len(); i++ {
			if refish(tup.At(i).Type()) && !isErrorType(tup.At(i).Type()) {
				return true
			}
		}
		return false
	}
	return refish(t) && !isErrorType(t)
}

func (tc *taintCtx) closureCall(ci ssa.CallInstruction, mc *ssa.MakeClosure, tainted map[ssa.Value]bool, report func(ssa.Instruction, string)) {
	lf := mc.Fn.(*ssa.Function)
	ft := map[*ssa.FreeVar]bool{}
	for i, b := range mc.Bindings {
		if tainted[b] {
			ft[lf.FreeVars[i]] = true
		}
	}
	if _, isGo := ci.(*ssa.Go); isGo {
		report(ci, "caller memory captured by a goroutine")
		return
	}
	s := tc.analyse(lf, nil, ft)
	for _, w := range s.retains {
		report(ci, w)
	}
}

func runEngineB(p *Prog, o *obls) {
	tc := &taintCtx{p: p, cache: map[string]*taintSummary{}, stack: map[string]bool{}}
	type src struct {
		fn     *ssa.Function
		params []int
		what   string
		key    string
	}
	var srcs []src
	closures, _ := p.PktClosures()
	for _, c := range closures {
		off := 0
		if c.Method {
			off = 1 // method form: parameter 0 is the receiver
		}
		switch c.Kind {
		case RTPWriter:
			srcs = append(srcs, src{c.Fn, []int{off, off + 1}, "header and payload of the caller's Write", closureKey(c)})
		case RTPReader, RTCPReader:
			srcs = append(srcs, src{c.Fn, []int{off}, "the caller's read buffer", closureKey(c)})
		}
	}
	// Write methods of types implementing RTPWriter (pacers)
	isClosureFn := map[*ssa.Function]bool{}
	for _, c := range closures {
		isClosureFn[c.Fn] = true
	}
	for _, f := range p.Funcs {
		if f.Parent() != nil || f.Name() != "Write" || f.Signature.Recv() == nil || isClosureFn[f] {
			continue
		}
		if types.Implements(f.Signature.Recv().Type(), p.rootIface("RTPWriter")) && len(f.Params) == 4 {
			if typeKey(f.Signature.Recv().Type()) == "interceptor.RTPWriterFunc" {
				continue
			}
			srcs = append(srcs, src{f, []int{1, 2}, "header and payload of the caller's Write", funcKey(f)})
		}
	}
	sort.Slice(srcs, func(i, j int) bool { return srcs[i].key < srcs[j].key })
	for _, s := range srcs {
		sum := tc.analyse(s.fn, s.params, nil)
		key := s.key
		pos := p.Pos(s.fn.Pos())
		if len(sum.retains) > 0 {
			w := sum.retains
			sort.Strings(w)
			if len(w) > 4 {
				w = append(w[:4], fmt.Sprintf("… and %d more", len(w)-4))
			}
			o.bad("B", key, pos, s.what+" is retained after the call returns: "+strings.Join(w, "; "))
		} else {
			o.ok("B", key, pos, "no flow of "+s.what+" (or of a shallow copy of it) into memory, channels, goroutines or containers that outlive the call; copies go through copy/Clone/append-of-bytes")
		}
	}
}

// zeroCapSlice: s[:0:0] — appending to it always allocates, the result does not alias s.
func zeroCapSlice(v ssa.Value) bool {
	sl, ok := v.(*ssa.Slice)
	return ok && sl.Max != nil && isConstInt(sl.Max, 0)
}
