package main

// O4 — what a factory builds is not shared through the factory. `Factory.NewInterceptor` is called once per
// PeerConnection; each interceptor it returns carries state of its own (histories, logs, tables, queues — objects with a
// mutex, a map or a channel inside). A factory that applies its options once to a template and returns shallow copies
// of it, or that hands every interceptor the same stateful object it keeps in one of its own fields, makes the
// connections write into one another's state: sequence numbers of two connections collide in one history and feedback
// read on one is attributed to the other's packets. In every NewInterceptor method, nothing stored into the freshly
// allocated interceptor is (a) a whole struct copied out of memory reachable from the factory whose type has a
// reference to a stateful object, or (b) a reference to a stateful object loaded from memory reachable from the factory.
// Interfaces (logger factories, clocks, user-supplied packet factories) and function values are configuration, not
// state, and are not judged.

import (
	"fmt"
	"go/token"
	"go/types"
	"strings"

	"golang.org/x/tools/go/ssa"
)

func init() {
	registerEngine("O4", []string{"O4"}, runEngineO4)
}

// statefulType: a named struct of the repository with a mutex, a map or a channel among its fields (depth 2).
func statefulType(t types.Type, depth int) bool {
	n := namedOf(deref(t))
	if n == nil || n.Obj().Pkg() == nil || depth > 2 {
		return false
	}
	if !strings.HasPrefix(n.Obj().Pkg().Path(), modPath) && !strings.HasPrefix(n.Obj().Pkg().Path(), "fixtures") {
		return false
	}
	st, ok := n.Underlying().(*types.Struct)
	if !ok {
		return false
	}
	for i := 0; i < st.NumFields(); i++ {
		ft := st.Field(i).Type()
		switch tk := typeKey(ft); tk {
		case "sync.Mutex", "sync.RWMutex", "sync.Map":
			return true
		}
		switch u := ft.Underlying().(type) {
		case *types.Map, *types.Chan:
			return true
		case *types.Struct:
			if statefulType(ft, depth+1) {
				return true
			}
		case *types.Pointer:
			if statefulType(u.Elem(), depth+1) {
				return true
			}
		}
	}
	return false
}

// refsStateful: the struct type has a field that refers (pointer, map, chan) to a stateful object.
func refsStateful(t types.Type) string {
	st, ok := t.Underlying().(*types.Struct)
	if !ok {
		return ""
	}
	for i := 0; i < st.NumFields(); i++ {
		if pt, ok := st.Field(i).Type().Underlying().(*types.Pointer); ok && statefulType(pt.Elem(), 0) {
			return st.Field(i).Name()
		}
		if statefulIface != nil && statefulIface(st.Field(i).Type()) {
			return st.Field(i).Name()
		}
	}
	return ""
}

// statefulIface (set per run): an unexported interface of the repository — an internal seam, not a user-facing
// configuration point — that a stateful repository type implements.
var statefulIface func(t types.Type) bool

func runEngineO4(p *Prog, o *obls) {
	n := 0
	var named []*types.Named
	for sp := range p.Universe {
		for _, m := range sp.Members {
			if tn, ok := m.(*ssa.Type); ok {
				if nt, ok := tn.Type().(*types.Named); ok {
					named = append(named, nt)
				}
			}
		}
	}
	ifaceMemo := map[string]bool{}
	statefulIface = func(t types.Type) bool {
		nt, ok := t.(*types.Named)
		if !ok || nt.Obj().Pkg() == nil || nt.Obj().Exported() {
			return false
		}
		it, ok := nt.Underlying().(*types.Interface)
		if !ok || it.NumMethods() == 0 {
			return false
		}
		k := typeKey(nt)
		if v, ok := ifaceMemo[k]; ok {
			return v
		}
		res := false
		for _, c := range named {
			if _, isStruct := c.Underlying().(*types.Struct); !isStruct {
				continue
			}
			if (types.Implements(c, it) || types.Implements(types.NewPointer(c), it)) && statefulType(c, 0) {
				res = true
			}
		}
		ifaceMemo[k] = res
		return res
	}
	for _, fn := range p.Funcs {
		if fn.Name() != "NewInterceptor" || fn.Signature.Recv() == nil || fn.Blocks == nil || len(fn.Params) == 0 {
			continue
		}
		res := fn.Signature.Results()
		if res.Len() != 2 || !isErrorType(res.At(1).Type()) {
			continue
		}
		n++
		recv := ssa.Value(fn.Params[0])
		fromFactory := func(v ssa.Value) bool {
			u, ok := p.origin(v).(*ssa.UnOp)
			if !ok || u.Op != token.MUL {
				return false
			}
			// the address loaded from is reachable from the receiver through fields and pointer loads
			a := u.X
			for i := 0; i < 8; i++ {
				r := p.origin(addrRoot(a))
				if r == recv {
					return true
				}
				u2, ok := r.(*ssa.UnOp)
				if !ok || u2.Op != token.MUL {
					return false
				}
				a = u2.X
			}
			return false
		}
		var bad []string
		instrsOf(fn, func(in ssa.Instruction) {
			st, ok := in.(*ssa.Store)
			if !ok {
				return
			}
			al, ok := cellAddr(addrRoot(st.Addr)).(*ssa.Alloc)
			if !ok || al.Parent() != fn {
				return
			}
			if _, isStruct := deref(al.Type()).Underlying().(*types.Struct); !isStruct {
				return
			}
			if !fromFactory(st.Val) {
				return
			}
			vt := st.Val.Type()
			if _, isStruct := vt.Underlying().(*types.Struct); isStruct {
				if f := refsStateful(vt); f != "" {
					bad = append(bad, fmt.Sprintf("the interceptor is initialised at %s with a struct copied out of the factory whose field %s refers to a stateful object: every interceptor built by this factory shares that object", p.instrPos(st), f))
				}
				return
			}
			if statefulIface(vt) {
				bad = append(bad, fmt.Sprintf("the %s stored at %s (an internal interface with a stateful implementation) is loaded from the factory: every interceptor built by this factory shares that object", types.TypeString(vt, func(*types.Package) string { return "" }), p.instrPos(st)))
				return
			}
			switch u := vt.Underlying().(type) {
			case *types.Pointer:
				if statefulType(u.Elem(), 0) {
					bad = append(bad, fmt.Sprintf("the reference to the stateful %s stored at %s is loaded from the factory: every interceptor built by this factory shares that object", types.TypeString(u.Elem(), func(*types.Package) string { return "" }), p.instrPos(st)))
				}
			case *types.Map, *types.Chan:
				bad = append(bad, fmt.Sprintf("the map/channel stored at %s is loaded from the factory: every interceptor built by this factory shares it", p.instrPos(st)))
			}
		})
		key := funcKey(fn) + ":per-interceptor-state"
		if len(bad) > 0 {
			o.bad("O4", key, p.Pos(fn.Pos()), strings.Join(dedupe(bad), "; ")+" (two PeerConnections on one registry then write into one another's state)")
		} else {
			o.ok("O4", key, p.Pos(fn.Pos()), "nothing stored into the new interceptor is a stateful object (or a struct referring to one) taken from the factory")
		}
	}
	o.ok("O4", "inspected", "-", fmt.Sprintf("%d NewInterceptor factory method(s)", n))
	o4MakerClosures(p, o)
}

// o4MakerClosures — clause (c): a factory may keep a *function* that builds a part of every interceptor (the
// bandwidth-estimator factory of pkg/cc). Function values are configuration and (a)/(b) do not judge them — but a
// function literal of the repository that can be that value must build what it returns. For every function-typed field
// of a type with a NewInterceptor method, every function literal of the repository with an identical signature that is
// not created inside a NewInterceptor method: no return hands back a stateful object (or an interface holding one)
// that the literal merely captured — each call would hand every interceptor the same object.
func o4MakerClosures(p *Prog, o *obls) {
	var makerSigs []*types.Signature
	var where []string
	seen := map[*types.Named]bool{}
	for _, fn := range p.Funcs {
		if fn.Name() != "NewInterceptor" || fn.Signature.Recv() == nil {
			continue
		}
		nt := namedOf(deref(fn.Signature.Recv().Type()))
		if nt == nil || seen[nt] {
			continue
		}
		seen[nt] = true
		st, ok := nt.Underlying().(*types.Struct)
		if !ok {
			continue
		}
		for i := 0; i < st.NumFields(); i++ {
			if sig, ok := st.Field(i).Type().Underlying().(*types.Signature); ok && sig.Results().Len() >= 1 {
				makerSigs = append(makerSigs, sig)
				where = append(where, typeKey(nt)+"."+st.Field(i).Name())
			}
		}
	}
	n := 0
	for _, fn := range p.Funcs {
		if fn.Parent() == nil || fn.Blocks == nil {
			continue
		}
		inFactoryMethod := false
		for q := fn.Parent(); q != nil; q = q.Parent() {
			if q.Name() == "NewInterceptor" && q.Signature.Recv() != nil {
				inFactoryMethod = true
			}
		}
		if inFactoryMethod {
			continue
		}
		field := ""
		for i, sig := range makerSigs {
			if types.Identical(sig, fn.Signature) {
				field = where[i]
			}
		}
		if field == "" {
			continue
		}
		n++
		var bad []string
		for _, b := range fn.Blocks {
			ret, ok := b.Instrs[len(b.Instrs)-1].(*ssa.Return)
			if !ok || len(ret.Results) == 0 {
				continue
			}
			// peeled by hand: origin() would follow the captured cell into the enclosing function
			v := ret.Results[0]
			for k := 0; k < 4; k++ {
				switch x := v.(type) {
				case *ssa.MakeInterface:
					v = x.X
				case *ssa.ChangeType:
					v = x.X
				case *ssa.ChangeInterface:
					v = x.X
				}
			}
			var fv *ssa.FreeVar
			t := v.Type()
			if u, ok := v.(*ssa.UnOp); ok && u.Op == token.MUL {
				fv, _ = u.X.(*ssa.FreeVar) // captured by reference: the cell's content is returned
			} else {
				fv, _ = v.(*ssa.FreeVar)
			}
			if fv == nil {
				continue
			}
			stateful := false
			if pt, ok := t.Underlying().(*types.Pointer); ok && statefulType(pt.Elem(), 0) {
				stateful = true
			}
			if _, isIface := t.Underlying().(*types.Interface); isIface {
				stateful = true // an interface value built once outside the literal: whatever it holds is shared
			}
			if stateful {
				bad = append(bad, fmt.Sprintf("the return at %s hands back the captured %s, built once outside the literal: every interceptor the factory builds gets the same object", p.instrPos(ret), fv.Name()))
			}
		}
		key := funcKey(fn) + ":maker-builds"
		if len(bad) > 0 {
			o.bad("O4", key, p.Pos(fn.Pos()), strings.Join(dedupe(bad), "; ")+fmt.Sprintf(" (the literal has the signature of %s, which NewInterceptor calls once per interceptor)", field))
		} else {
			o.ok("O4", key, p.Pos(fn.Pos()), fmt.Sprintf("a literal with the signature of %s: what it returns is built inside it", field))
		}
	}
	o.ok("O4", "makers", "-", fmt.Sprintf("%d function literal(s) that can be a factory's per-interceptor maker", n))
}
