package main

// E5 — a node taken off the front of a doubly linked list is cut off from it. `q.head = q.head.next` removes the first
// node from what a forward walk sees, but the new first node's back pointer still refers to it — and the removed
// node's own back pointer to the one removed before it, and so on. While the list never runs empty (the steady state
// of a jitter buffer: one packet in, one packet out) every node ever popped stays reachable from the live head through
// that chain: memory grows with the length of the stream although the queue holds a handful of packets. For every
// store that advances a root field of a self-referential node type with a second self pointer (`F = F.next`), every
// path to a return must reset the new first node's back pointer (`F.prev = nil`) or pass the branch on which the new
// root is nil.

import (
	"fmt"
	"go/token"
	"go/types"

	"golang.org/x/tools/go/ssa"
)

func init() {
	registerEngine("E5", []string{"E5"}, runEngineE5)
}

// selfPointerFields: indices of the fields of struct st (the underlying type of named type t) that are *t.
func selfPointerFields(t types.Type, st *types.Struct) []int {
	var out []int
	for i := 0; i < st.NumFields(); i++ {
		if pt, ok := st.Field(i).Type().Underlying().(*types.Pointer); ok && types.Identical(pt.Elem(), t) {
			out = append(out, i)
		}
	}
	return out
}

func runEngineE5(p *Prog, o *obls) {
	n := 0
	for _, fn := range p.Funcs {
		k := 0
		instrsOf(fn, func(in ssa.Instruction) {
			st, ok := in.(*ssa.Store)
			if !ok {
				return
			}
			root, ok := st.Addr.(*ssa.FieldAddr)
			if !ok {
				return
			}
			pt, ok := deref(root.Type()).Underlying().(*types.Pointer)
			if !ok {
				return
			}
			nst, ok := pt.Elem().Underlying().(*types.Struct)
			if !ok {
				return
			}
			selfs := selfPointerFields(pt.Elem(), nst)
			if len(selfs) < 2 {
				return
			}
			// the value stored is `<load of the same root>.X`
			ld, ok := p.origin(st.Val).(*ssa.UnOp)
			if !ok || ld.Op != token.MUL {
				return
			}
			link, ok := ld.X.(*ssa.FieldAddr)
			if !ok || !types.Identical(deref(link.X.Type()), pt.Elem()) {
				return
			}
			base, ok := p.origin(link.X).(*ssa.UnOp)
			if !ok || base.Op != token.MUL {
				return
			}
			bfa, ok := base.X.(*ssa.FieldAddr)
			if !ok || p.pureKey(bfa) != p.pureKey(root) {
				return
			}
			if onlyWipedEnter(p, fieldKeyAddr(root)) {
				return // a stack of zeroed nodes kept for reuse (L3's free-list predicate): their back pointers are nil
			}
			rootKey := p.pureKey(root)
			back := map[int]bool{}
			for _, i := range selfs {
				if i != link.Field {
					back[i] = true
				}
			}
			n++
			k++
			key := fmt.Sprintf("%s:unlink-first(%s)", funcKey(fn), fieldName(fieldKeyAddr(root)))
			if k > 1 {
				key = fmt.Sprintf("%s#%d", key, k)
			}
			loadsRoot := func(v ssa.Value) bool {
				u, ok := p.origin(v).(*ssa.UnOp)
				if !ok || u.Op != token.MUL {
					return false
				}
				fa, ok := u.X.(*ssa.FieldAddr)
				return ok && p.pureKey(fa) == rootKey
			}
			// edges on which the new root is known nil are not paths that need the reset
			nilEdge := map[[2]*ssa.BasicBlock]bool{}
			for _, b := range fn.Blocks {
				c := ifCond(b)
				if c == nil || len(b.Succs) != 2 {
					continue
				}
				for i := 0; i < 2; i++ {
					f := normFact(condFact{c, i == 0})
					bo, ok := f.cond.(*ssa.BinOp)
					if !ok || (bo.Op != token.EQL && bo.Op != token.NEQ) || (bo.Op == token.EQL) != f.truth {
						continue
					}
					if isNilConst(bo.Y) && loadsRoot(bo.X) || isNilConst(bo.X) && loadsRoot(bo.Y) {
						nilEdge[[2]*ssa.BasicBlock{b, b.Succs[i]}] = true
					}
				}
			}
			isFix := func(x ssa.Instruction) bool {
				s2, ok := x.(*ssa.Store)
				if !ok {
					return false
				}
				fa, ok := s2.Addr.(*ssa.FieldAddr)
				return ok && back[fa.Field] && types.Identical(deref(fa.X.Type()), pt.Elem()) && loadsRoot(fa.X)
			}
			// forward search from just after the advance: which returns are reached without a reset?
			var bad []string
			seen := map[*ssa.BasicBlock]bool{}
			var visit func(b *ssa.BasicBlock, from int)
			visit = func(b *ssa.BasicBlock, from int) {
				for i := from; i < len(b.Instrs); i++ {
					if isFix(b.Instrs[i]) {
						return
					}
					if ret, ok := b.Instrs[i].(*ssa.Return); ok && b != fn.Recover {
						bad = append(bad, p.instrPos(ret))
					}
				}
				for _, sc := range b.Succs {
					if nilEdge[[2]*ssa.BasicBlock{b, sc}] || seen[sc] {
						continue
					}
					seen[sc] = true
					visit(sc, 0)
				}
			}
			idx := 0
			for i, x := range st.Block().Instrs {
				if x == ssa.Instruction(st) {
					idx = i + 1
				}
			}
			visit(st.Block(), idx)
			if len(bad) > 0 {
				o.bad("E5", key, p.instrPos(st), fmt.Sprintf("the first node is unlinked at %s by advancing %s, but the return at %s is reached without resetting the new first node's back pointer: the removed node — and through its own back pointer every node removed before it — stays reachable from the list for as long as the list is not empty (memory grows with every pop)", p.instrPos(st), fieldName(fieldKeyAddr(root)), bad[0]))
			} else {
				o.ok("E5", key, p.instrPos(st), "after the root advances, every path resets the new first node's back pointer or finds the list empty")
			}
		})
	}
	o.ok("E5", "inspected", "-", fmt.Sprintf("%d store(s) that advance the root of a doubly linked list", n))
}
