package main

import (
	"fmt"
	"sort"
	"go/token"
	"go/types"
	"strings"

	"golang.org/x/tools/go/ssa"
)

// Engine K — chain and registry fan-out (DESIGN.md §3 K).

func init() {
	registerEngine("K", []string{"K1", "K2"}, runEngineK)
}

// rangeLoop is go/ssa's shape of `for i, e := range slice`.
type rangeLoop struct {
	Header *ssa.BasicBlock
	Slice  ssa.Value // the slice ranged over
	Index  ssa.Value // current index (phi+1)
	Blocks map[*ssa.BasicBlock]bool
	Exits  []exitEdge // edges leaving the loop other than the header's exhaustion edge
}

type exitEdge struct{ From, To *ssa.BasicBlock }

func findRangeLoops(fn *ssa.Function) []*rangeLoop {
	var out []*rangeLoop
	for _, h := range fn.Blocks {
		cond := ifCond(h)
		bo, ok := cond.(*ssa.BinOp)
		if !ok || bo.Op != token.LSS {
			continue
		}
		var index ssa.Value
		if inc, ok := bo.X.(*ssa.BinOp); ok && inc.Op == token.ADD && isConstInt(inc.Y, 1) {
			// `for i, e := range s`: φ starts at -1, the index is φ+1
			phi, ok := inc.X.(*ssa.Phi)
			if !ok || phi.Block() != h || len(phi.Edges) < 2 {
				continue
			}
			nInit, okPhi := 0, true
			for _, e := range phi.Edges {
				if isConstInt(e, -1) {
					nInit++
				} else if e != ssa.Value(inc) {
					okPhi = false
				}
			}
			if !okPhi || nInit != 1 {
				continue
			}
			index = inc
		} else if phi, ok := bo.X.(*ssa.Phi); ok && phi.Block() == h && len(phi.Edges) >= 2 {
			// `for i := 0; i < len(s); i++`: φ starts at 0, every other edge is φ+1
			nInit, okPhi := 0, true
			for _, e := range phi.Edges {
				if isConstInt(e, 0) {
					nInit++
					continue
				}
				inc, ok := e.(*ssa.BinOp)
				if !ok || inc.Op != token.ADD || inc.X != ssa.Value(phi) || !isConstInt(inc.Y, 1) {
					okPhi = false
				}
			}
			if !okPhi || nInit != 1 {
				continue
			}
			index = phi
		} else {
			continue
		}
		lc, ok := bo.Y.(*ssa.Call)
		if !ok || builtinName(&lc.Call) != "len" {
			continue
		}
		l := &rangeLoop{Header: h, Slice: lc.Call.Args[0], Index: index, Blocks: map[*ssa.BasicBlock]bool{h: true}}
		// body = blocks reachable from the true successor without passing the header
		var stack []*ssa.BasicBlock
		stack = append(stack, h.Succs[0])
		for len(stack) > 0 {
			b := stack[len(stack)-1]
			stack = stack[:len(stack)-1]
			if l.Blocks[b] {
				continue
			}
			// only blocks that can get back to the header belong to the loop
			if !reachableFrom(b)[h] {
				continue
			}
			l.Blocks[b] = true
			stack = append(stack, b.Succs...)
		}
		for b := range l.Blocks {
			for _, s := range b.Succs {
				if !l.Blocks[s] && !(b == h && s == h.Succs[1]) {
					l.Exits = append(l.Exits, exitEdge{b, s})
				}
			}
		}
		out = append(out, l)
	}
	return out
}

// loopElem reports whether v is the current element of the range loop: *(&slice[index]).
func (l *rangeLoop) isElem(p *Prog, v ssa.Value) bool {
	u, ok := v.(*ssa.UnOp)
	if !ok || u.Op != token.MUL {
		return false
	}
	ia, ok := u.X.(*ssa.IndexAddr)
	if !ok || ia.Index != l.Index {
		return false
	}
	return ia.X == l.Slice || p.pureKey(ia.X) == p.pureKey(l.Slice)
}

func isFieldLoad(v ssa.Value, typeKeyWant, field string) bool {
	u, ok := v.(*ssa.UnOp)
	if !ok || u.Op != token.MUL {
		return false
	}
	fa, ok := u.X.(*ssa.FieldAddr)
	if !ok {
		return false
	}
	return fieldKeyAddr(fa) == typeKeyWant+"."+field
}

func runEngineK(p *Prog, o *obls) {
	// chain-like types: the root package's Chain; in the fixtures every struct with an `interceptors` field
	var chains []*types.Named
	var builders []*types.Named
	var flattens, ises []*ssa.Function
	if p.Fixture {
		for sp := range p.Universe {
			for _, m := range sp.Members {
				tn, ok := m.(*ssa.Type)
				if !ok {
					continue
				}
				n, ok := tn.Type().(*types.Named)
				if !ok {
					continue
				}
				if st, ok := n.Underlying().(*types.Struct); ok {
					for i := 0; i < st.NumFields(); i++ {
						if cFieldName(st.Field(i)) == "interceptors" {
							chains = append(chains, n)
						}
						if cFieldName(st.Field(i)) == "factories" {
							builders = append(builders, n)
						}
					}
				}
			}
		}
		for _, f := range p.Funcs {
			if strings.Contains(f.Name(), "K2Flatten") {
				flattens = append(flattens, f)
			}
			if f.Name() == "Is" && f.Signature.Recv() != nil && strings.Contains(funcKey(f), "K2") {
				ises = append(ises, f)
			}
		}
	} else {
		if c := p.LookupType("", "Chain"); c != nil {
			chains = append(chains, c)
		} else {
			o.undecided("K1", "interceptor.Chain", "-", "type Chain not found")
		}
		if r := p.LookupType("", "Registry"); r != nil {
			builders = append(builders, r)
		} else {
			o.undecided("K2", "interceptor.Registry", "-", "type Registry not found")
		}
		if f := p.FuncByKey("interceptor.flattenErrs"); f != nil {
			flattens = append(flattens, f)
		} else {
			o.undecided("K2", "interceptor.flattenErrs", "-", "function not found")
		}
		if f := p.FuncByKey("interceptor.(multiError).Is"); f != nil {
			ises = append(ises, f)
		} else {
			o.undecided("K2", "interceptor.(multiError).Is", "-", "function not found")
		}
	}
	sort.Slice(chains, func(i, j int) bool { return typeKey(chains[i]) < typeKey(chains[j]) })
	sort.Slice(builders, func(i, j int) bool { return typeKey(builders[i]) < typeKey(builders[j]) })
	for _, chain := range chains {
		for _, m := range lifecycleMethods {
			fn := p.DeclaredMethod(chain, m)
			key := typeKey(chain) + "." + m
			if fn == nil || fn.Blocks == nil {
				if !p.Fixture {
					o.undecided("K1", key, "-", "method not declared on Chain")
				}
				continue
			}
			if why := k1ChainMethod(p, fn, m, typeKey(chain)); why != "" {
				o.bad("K1", key, p.Pos(fn.Pos()), why)
			} else {
				o.ok("K1", key, p.Pos(fn.Pos()), "one exhaustive range over the interceptors slice, one "+m+" call per member, result folded / all errors kept")
			}
		}
	}
	k2 := func(fn *ssa.Function, check func(*ssa.Function) string) {
		key := funcKey(fn)
		if fn.Blocks == nil {
			o.undecided("K2", key, "-", "no body")
			return
		}
		if why := check(fn); why != "" {
			o.bad("K2", key, p.Pos(fn.Pos()), why)
		} else {
			o.ok("K2", key, p.Pos(fn.Pos()), "structure confirmed: every element visited, every non-nil error kept / first construction error returned")
		}
	}
	for _, f := range flattens {
		k2(f, func(fn *ssa.Function) string { return k2Flatten(p, fn) })
	}
	for _, f := range ises {
		k2(f, func(fn *ssa.Function) string { return k2Is(p, fn) })
	}
	for _, b := range builders {
		fn := p.DeclaredMethod(b, "Build")
		if fn == nil {
			o.undecided("K2", typeKey(b)+".Build", "-", "method not found")
			continue
		}
		k2(fn, func(fn *ssa.Function) string { return k2Build(p, fn, typeKey(b)) })
	}
}

func k1ChainMethod(p *Prog, fn *ssa.Function, m string, chainKey string) string {
	// the per-member calls
	var calls []*ssa.Call
	instrsOf(fn, func(in ssa.Instruction) {
		if c, ok := in.(*ssa.Call); ok && c.Call.IsInvoke() && types.Identical(c.Call.Value.Type(), p.rootNamed("Interceptor")) {
			calls = append(calls, c)
		}
	})
	if len(calls) == 0 && (m == "Close" || strings.HasPrefix(m, "Unbind")) {
		// the loop over the members was moved into a helper method of the chain
		if why, handled := k1Delegated(p, fn, m, chainKey); handled {
			return why
		}
	}
	if len(calls) == 0 {
		// the members are visited through a helper of a list type that calls a function once per member
		if why, handled := k1Visitor(p, fn, m, chainKey); handled {
			return why
		}
	}
	if len(calls) != 1 {
		return fmt.Sprintf("expected exactly one call on a chain member, found %d", len(calls))
	}
	call := calls[0]
	if call.Call.Method.Name() != m {
		return fmt.Sprintf("members receive %s instead of %s", call.Call.Method.Name(), m)
	}
	loops := findRangeLoops(fn)
	var loop *rangeLoop
	for _, l := range loops {
		if l.Blocks[call.Block()] {
			loop = l
		}
	}
	if loop == nil {
		return "the member call is not inside a range loop"
	}
	if !isFieldLoad(loop.Slice, chainKey, "interceptors") {
		return "the loop does not range over the whole interceptors slice (" + valueString(loop.Slice) + ")"
	}
	if !loop.isElem(p, call.Call.Value) {
		return "the call's receiver is not the loop element"
	}
	if len(loop.Exits) > 0 {
		return fmt.Sprintf("the loop can be left early (edge %d→%d): not every member is visited", loop.Exits[0].From.Index, loop.Exits[0].To.Index)
	}
	// unconditional within the loop: every non-header loop block has one successor
	for b := range loop.Blocks {
		if b != loop.Header && len(b.Succs) != 1 {
			return "the member call is conditional inside the loop"
		}
	}
	// stores to receiver fields (e.g. truncating the slice) are not part of these methods
	bad := ""
	instrsOf(fn, func(in ssa.Instruction) {
		if st, ok := in.(*ssa.Store); ok && !isLocalAddr(addrRoot(st.Addr)) {
			bad = "the method writes to shared state at " + p.instrPos(st)
		}
	})
	if bad != "" {
		return bad
	}
	switch {
	case strings.HasPrefix(m, "Bind"):
		par := fn.Params[len(fn.Params)-1]
		args := call.Call.Args
		acc, ok := args[len(args)-1].(*ssa.Phi)
		if !ok || acc.Block() != loop.Header {
			return "the value handed to each member is not the running result"
		}
		okFold := len(acc.Edges) >= 2
		for _, e := range acc.Edges {
			if e != ssa.Value(call) && p.origin(e) != ssa.Value(par) {
				okFold = false
			}
		}
		if !okFold {
			return "the running result is not folded from the argument through each member's result"
		}
		// other arguments (StreamInfo) are the method's own
		for i := 0; i < len(args)-1; i++ {
			if p.origin(args[i]) != ssa.Value(fn.Params[i+1]) {
				return "members receive a different StreamInfo"
			}
		}
		for _, b := range fn.Blocks {
			if ret, ok := b.Instrs[len(b.Instrs)-1].(*ssa.Return); ok {
				if ret.Results[0] != ssa.Value(acc) {
					return "the returned value is not the folded result at " + p.instrPos(ret)
				}
			}
		}
	case strings.HasPrefix(m, "Unbind"):
		if p.origin(call.Call.Args[0]) != ssa.Value(fn.Params[1]) {
			return "members receive a different StreamInfo"
		}
	case m == "Close":
		for _, b := range fn.Blocks {
			ret, ok := b.Instrs[len(b.Instrs)-1].(*ssa.Return)
			if !ok {
				continue
			}
			fc, ok := ret.Results[0].(*ssa.Call)
			if !ok || fc.Call.StaticCallee() == nil || !strings.HasSuffix(funcKey(fc.Call.StaticCallee()), "lattenErrs") && !strings.Contains(funcKey(fc.Call.StaticCallee()), "K2Flatten") {
				return "Close does not return flattenErrs(errs)"
			}
			if !p.backwardReaches(fc.Call.Args[0], func(v ssa.Value) bool { return v == ssa.Value(call) }) {
				return "the members' Close errors do not reach flattenErrs"
			}
		}
		// the append of the call result is in the same block as the call (unconditional)
		appended := false
		for _, in := range call.Block().Instrs {
			if c, ok := in.(*ssa.Call); ok && builtinName(&c.Call) == "append" {
				if p.backwardReaches(c.Call.Args[1], func(v ssa.Value) bool { return v == ssa.Value(call) }) {
					appended = true
				}
			}
			// or it is stored into the element of a pre-sized slice at the loop index
			if st, ok := in.(*ssa.Store); ok && p.origin(st.Val) == ssa.Value(call) {
				if ia, ok := st.Addr.(*ssa.IndexAddr); ok && ia.Index == loop.Index {
					appended = true
				}
			}
		}
		if !appended {
			return "a member's Close error is not appended unconditionally"
		}
	}
	return ""
}

func k2Flatten(p *Prog, fn *ssa.Function) string {
	loops := findRangeLoops(fn)
	if len(loops) == 0 {
		// the filtering loop moved into a helper that is handed the argument: the helper is checked like the loop, the
		// function for returning the helper's result as the multiError
		var via *ssa.Call
		n := 0
		instrsOf(fn, func(in ssa.Instruction) {
			if c, ok := in.(*ssa.Call); ok {
				if sc := c.Call.StaticCallee(); sc != nil && p.InUniverse(sc) && sc.Blocks != nil && len(c.Call.Args) == 1 && p.origin(c.Call.Args[0]) == ssa.Value(fn.Params[0]) && len(findRangeLoops(sc)) == 1 {
					via = c
					n++
				}
			}
		})
		if n == 1 {
			if why := k2FlattenLoop(p, via.Call.StaticCallee(), false); why != "" {
				return why + " (in " + funcKey(via.Call.StaticCallee()) + ")"
			}
			found := false
			for _, b := range fn.Blocks {
				if ret, ok := b.Instrs[len(b.Instrs)-1].(*ssa.Return); ok {
					if mi, ok := ret.Results[0].(*ssa.MakeInterface); ok && p.backwardReaches(mi.X, func(v ssa.Value) bool { return v == ssa.Value(via) }) {
						found = true
					}
				}
			}
			if !found {
				return "the filtered errors are not what is returned"
			}
			return ""
		}
	}
	return k2FlattenLoop(p, fn, true)
}

// k2FlattenLoop: fn ranges exhaustively over its first parameter, skips only nil elements and appends the others;
// asIface: the accumulated slice is returned as the multiError (otherwise as the slice itself).
func k2FlattenLoop(p *Prog, fn *ssa.Function, asIface bool) string {
	loops := findRangeLoops(fn)
	if len(loops) != 1 {
		return fmt.Sprintf("expected one range loop, found %d", len(loops))
	}
	l := loops[0]
	if p.origin(l.Slice) != ssa.Value(fn.Params[0]) {
		return "the loop does not range over the whole argument"
	}
	if len(l.Exits) > 0 {
		return "the loop can be left early: later errors are lost"
	}
	// inside: exactly one If, testing elem != nil, whose true branch appends elem
	appendOK := false
	for b := range l.Blocks {
		if b == l.Header {
			continue
		}
		if c := ifCond(b); c != nil {
			bo, ok := c.(*ssa.BinOp)
			if !ok || (bo.Op != token.NEQ && bo.Op != token.EQL) || !isNilConst(bo.Y) || !l.isElem(p, bo.X) {
				return "an element is skipped by a test other than e != nil"
			}
			nonNilSucc := b.Succs[0]
			if bo.Op == token.EQL {
				nonNilSucc = b.Succs[1]
			}
			for _, in := range nonNilSucc.Instrs {
				if call, ok := in.(*ssa.Call); ok && builtinName(&call.Call) == "append" {
					if p.backwardReaches(call.Call.Args[1], func(v ssa.Value) bool { return l.isElem(p, v) }) {
						appendOK = true
					}
				}
			}
		}
	}
	if !appendOK {
		return "non-nil elements are not appended to the result"
	}
	// some return yields the accumulated slice as multiError
	found := false
	for _, b := range fn.Blocks {
		if ret, ok := b.Instrs[len(b.Instrs)-1].(*ssa.Return); ok {
			if mi, ok := ret.Results[0].(*ssa.MakeInterface); ok && asIface {
				if _, isPhi := p.origin(mi.X).(*ssa.Phi); isPhi {
					found = true
				}
			}
			if _, isPhi := p.origin(ret.Results[0]).(*ssa.Phi); isPhi && !asIface {
				found = true
			}
		}
	}
	if !found {
		return "the accumulated errors are not what is returned"
	}
	return ""
}

func k2Is(p *Prog, fn *ssa.Function) string {
	loops := findRangeLoops(fn)
	if len(loops) != 1 {
		return fmt.Sprintf("expected one range loop, found %d", len(loops))
	}
	l := loops[0]
	if p.origin(l.Slice) != ssa.Value(fn.Params[0]) {
		return "the loop does not range over the whole multiError"
	}
	for _, e := range l.Exits {
		ret, ok := e.To.Instrs[len(e.To.Instrs)-1].(*ssa.Return)
		if !ok || len(e.To.Instrs) != 1 {
			return "the loop is left early other than by `return true`"
		}
		if c, ok := ret.Results[0].(*ssa.Const); !ok || c.Value == nil || c.Value.String() != "true" {
			return "the loop is left early with a result other than true"
		}
	}
	usesIs := false
	instrsOf(fn, func(in ssa.Instruction) {
		if c, ok := in.(*ssa.Call); ok && isCallTo(&c.Call, "errors.Is") && l.isElem(p, c.Call.Args[0]) && p.origin(c.Call.Args[1]) == ssa.Value(fn.Params[1]) {
			usesIs = true
		}
	})
	if !usesIs {
		return "elements are not compared with errors.Is(e, target)"
	}
	return ""
}

func k2Build(p *Prog, fn *ssa.Function, regKey string) string {
	loops := findRangeLoops(fn)
	if len(loops) == 0 {
		if why, handled := k2BuildDelegated(p, fn, regKey); handled {
			return why
		}
	}
	if len(loops) != 1 {
		return fmt.Sprintf("expected one range loop, found %d", len(loops))
	}
	l := loops[0]
	if !isFieldLoad(l.Slice, regKey, "factories") {
		return "the loop does not range over the whole Registry.factories slice"
	}
	var call *ssa.Call
	n := 0
	instrsOf(fn, func(in ssa.Instruction) {
		if c, ok := in.(*ssa.Call); ok && c.Call.IsInvoke() && c.Call.Method.Name() == "NewInterceptor" {
			call = c
			n++
		}
	})
	if n != 1 || !l.Blocks[call.Block()] || !l.isElem(p, call.Call.Value) || call.Block().Idom() != l.Header {
		return "not exactly one unconditional NewInterceptor call per factory"
	}
	if p.origin(call.Call.Args[0]) != ssa.Value(fn.Params[1]) {
		return "factories receive a different id"
	}
	fe := errExtract(call)
	for _, e := range l.Exits {
		ret, ok := e.To.Instrs[len(e.To.Instrs)-1].(*ssa.Return)
		if !ok || fe == nil || p.origin(ret.Results[1]) != ssa.Value(fe) || p.nilnessAt(fe, e.To) != 1 {
			return "the loop is left early other than by returning the factory's error"
		}
	}
	if fe == nil || len(l.Exits) == 0 {
		return "a factory's construction error does not end Build with that error"
	}
	i0 := extractN(call, 0)
	appended := false
	instrsOf(fn, func(in ssa.Instruction) {
		if c, ok := in.(*ssa.Call); ok && builtinName(&c.Call) == "append" && l.Blocks[c.Block()] {
			if i0 != nil && p.backwardReaches(c.Call.Args[1], func(v ssa.Value) bool { return v == ssa.Value(i0) }) {
				if len(c.Block().Succs) == 1 && c.Block().Succs[0] == l.Header {
					appended = true
				}
			}
		}
	})
	if !appended {
		return "the built interceptor is not appended on the success path"
	}
	okChain, okNoOp := false, false
	for _, b := range fn.Blocks {
		ret, ok := b.Instrs[len(b.Instrs)-1].(*ssa.Return)
		if !ok {
			continue
		}
		v := ret.Results[0]
		if mi, ok := v.(*ssa.MakeInterface); ok {
			switch x := mi.X.(type) {
			case *ssa.Call:
				if sc := x.Call.StaticCallee(); sc != nil && strings.HasSuffix(funcKey(sc), ".NewChain") {
					if _, isPhi := x.Call.Args[0].(*ssa.Phi); isPhi && b == l.Header.Succs[1] {
						okChain = true
					}
				}
			case *ssa.Alloc:
				if strings.HasSuffix(typeKey(x.Type()), "NoOp") {
					// only when the registry is empty
					for _, f := range dominatingFacts(b) {
						if bo, ok := f.cond.(*ssa.BinOp); ok && bo.Op == token.EQL && isConstInt(bo.Y, 0) && f.truth {
							okNoOp = true
						}
					}
				}
			}
		}
	}
	if !okChain {
		return "the chain is not built from all constructed interceptors after the loop"
	}
	if !okNoOp {
		return "an empty registry does not build a NoOp"
	}
	return ""
}

// k1Delegated: fn contains no member call itself but calls exactly one helper method on its own receiver that does.
// The helper is checked like the method (one exhaustive, unconditional range over the interceptors slice); the link
// between the two is checked here: Close returns flattenErrs(helper()), Unbind passes its StreamInfo on.
func k1Delegated(p *Prog, fn *ssa.Function, m string, chainKey string) (string, bool) {
	var via *ssa.Call
	var helper *ssa.Function
	n := 0
	instrsOf(fn, func(in ssa.Instruction) {
		c, ok := in.(*ssa.Call)
		if !ok {
			return
		}
		sc := c.Call.StaticCallee()
		if sc == nil || !p.InUniverse(sc) || sc.Signature.Recv() == nil || len(c.Call.Args) == 0 || p.origin(c.Call.Args[0]) != ssa.Value(fn.Params[0]) {
			return
		}
		has := false
		instrsOf(sc, func(in2 ssa.Instruction) {
			if c2, ok := in2.(*ssa.Call); ok && c2.Call.IsInvoke() && types.Identical(c2.Call.Value.Type(), p.rootNamed("Interceptor")) {
				has = true
			}
		})
		if has {
			n++
			via, helper = c, sc
		}
	})
	if n != 1 {
		return "", false
	}
	var calls []*ssa.Call
	instrsOf(helper, func(in ssa.Instruction) {
		if c, ok := in.(*ssa.Call); ok && c.Call.IsInvoke() && types.Identical(c.Call.Value.Type(), p.rootNamed("Interceptor")) {
			calls = append(calls, c)
		}
	})
	if len(calls) != 1 {
		return fmt.Sprintf("expected exactly one call on a chain member in %s, found %d", funcKey(helper), len(calls)), true
	}
	call := calls[0]
	if call.Call.Method.Name() != m {
		return fmt.Sprintf("members receive %s instead of %s", call.Call.Method.Name(), m), true
	}
	var loop *rangeLoop
	for _, l := range findRangeLoops(helper) {
		if l.Blocks[call.Block()] {
			loop = l
		}
	}
	if loop == nil {
		return "the member call is not inside a range loop", true
	}
	if !isFieldLoad(loop.Slice, chainKey, "interceptors") {
		return "the loop does not range over the whole interceptors slice (" + valueString(loop.Slice) + ")", true
	}
	if !loop.isElem(p, call.Call.Value) {
		return "the call's receiver is not the loop element", true
	}
	if len(loop.Exits) > 0 {
		return "the loop can be left early: not every member is visited", true
	}
	for b := range loop.Blocks {
		if b != loop.Header && len(b.Succs) != 1 {
			return "the member call is conditional inside the loop", true
		}
	}
	for _, f := range []*ssa.Function{fn, helper} {
		bad := ""
		instrsOf(f, func(in ssa.Instruction) {
			if st, ok := in.(*ssa.Store); ok && !isLocalAddr(addrRoot(st.Addr)) {
				bad = "the method writes to shared state at " + p.instrPos(st)
			}
		})
		if bad != "" {
			return bad, true
		}
	}
	// the helper call itself is unconditional in fn
	if via.Block() != fn.Blocks[0] && !via.Block().Dominates(fn.Blocks[len(fn.Blocks)-1]) {
		for _, b := range fn.Blocks {
			if _, ok := b.Instrs[len(b.Instrs)-1].(*ssa.Return); ok && !via.Block().Dominates(b) {
				return "the helper that visits the members is called conditionally", true
			}
		}
	}
	switch {
	case strings.HasPrefix(m, "Unbind"):
		par, ok := p.origin(call.Call.Args[0]).(*ssa.Parameter)
		if !ok || par.Parent() != helper {
			return "members receive a different StreamInfo", true
		}
		for i, q := range helper.Params {
			if q == par && (i >= len(via.Call.Args) || p.origin(via.Call.Args[i]) != ssa.Value(fn.Params[1])) {
				return "members receive a different StreamInfo", true
			}
		}
	case m == "Close":
		appended := false
		for _, in := range call.Block().Instrs {
			if c, ok := in.(*ssa.Call); ok && builtinName(&c.Call) == "append" {
				if p.backwardReaches(c.Call.Args[1], func(v ssa.Value) bool { return v == ssa.Value(call) }) {
					appended = true
				}
			}
		}
		if !appended {
			return "a member's Close error is not appended unconditionally", true
		}
		for _, b := range helper.Blocks {
			if ret, ok := b.Instrs[len(b.Instrs)-1].(*ssa.Return); ok {
				if len(ret.Results) == 0 || !p.backwardReaches(ret.Results[0], func(v ssa.Value) bool { return v == ssa.Value(call) }) {
					return "the helper does not return the members' Close errors", true
				}
			}
		}
		for _, b := range fn.Blocks {
			ret, ok := b.Instrs[len(b.Instrs)-1].(*ssa.Return)
			if !ok {
				continue
			}
			fc, ok := ret.Results[0].(*ssa.Call)
			if !ok || fc.Call.StaticCallee() == nil || !strings.HasSuffix(funcKey(fc.Call.StaticCallee()), "lattenErrs") && !strings.Contains(funcKey(fc.Call.StaticCallee()), "K2Flatten") {
				return "Close does not return flattenErrs(errs)", true
			}
			if !p.backwardReaches(fc.Call.Args[0], func(v ssa.Value) bool { return v == ssa.Value(via) }) {
				return "the members' Close errors do not reach flattenErrs", true
			}
		}
	}
	return "", true
}

// k2BuildDelegated: Build has no loop of its own but calls exactly one helper method on its receiver that asks the
// factories. The helper is checked like the loop half of k2Build (one exhaustive range over factories, one
// unconditional NewInterceptor per factory with Build's id, the first error ends it with that error, every built
// interceptor is appended and the appended slice is returned); Build is checked for the link: it returns the helper's
// error when that is non-nil, otherwise NewChain(helper's result), and NoOp only for the empty registry.
func k2BuildDelegated(p *Prog, fn *ssa.Function, regKey string) (string, bool) {
	var via *ssa.Call
	var h *ssa.Function
	n := 0
	instrsOf(fn, func(in ssa.Instruction) {
		c, ok := in.(*ssa.Call)
		if !ok {
			return
		}
		sc := c.Call.StaticCallee()
		if sc == nil || !p.InUniverse(sc) || sc.Signature.Recv() == nil || len(c.Call.Args) == 0 || p.origin(c.Call.Args[0]) != ssa.Value(fn.Params[0]) {
			return
		}
		has := false
		instrsOf(sc, func(in2 ssa.Instruction) {
			if c2, ok := in2.(*ssa.Call); ok && c2.Call.IsInvoke() && c2.Call.Method.Name() == "NewInterceptor" {
				has = true
			}
		})
		if has {
			n++
			via, h = c, sc
		}
	})
	if n != 1 {
		return "", false
	}
	loops := findRangeLoops(h)
	if len(loops) != 1 {
		return fmt.Sprintf("expected one range loop in %s, found %d", funcKey(h), len(loops)), true
	}
	l := loops[0]
	if !isFieldLoad(l.Slice, regKey, "factories") {
		return "the loop does not range over the whole Registry.factories slice", true
	}
	var call *ssa.Call
	cnt := 0
	instrsOf(h, func(in ssa.Instruction) {
		if c, ok := in.(*ssa.Call); ok && c.Call.IsInvoke() && c.Call.Method.Name() == "NewInterceptor" {
			call = c
			cnt++
		}
	})
	if cnt != 1 || !l.Blocks[call.Block()] || !l.isElem(p, call.Call.Value) || call.Block().Idom() != l.Header {
		return "not exactly one unconditional NewInterceptor call per factory", true
	}
	idPar, ok := p.origin(call.Call.Args[0]).(*ssa.Parameter)
	if !ok || idPar.Parent() != h {
		return "factories receive a different id", true
	}
	for i, q := range h.Params {
		if q == idPar && (i >= len(via.Call.Args) || p.origin(via.Call.Args[i]) != ssa.Value(fn.Params[1])) {
			return "factories receive a different id", true
		}
	}
	fe := errExtract(call)
	for _, e := range l.Exits {
		ret, ok := e.To.Instrs[len(e.To.Instrs)-1].(*ssa.Return)
		if !ok || fe == nil || len(ret.Results) < 2 || p.origin(ret.Results[len(ret.Results)-1]) != ssa.Value(fe) || p.nilnessAt(fe, e.To) != 1 {
			return "the loop is left early other than by returning the factory's error", true
		}
	}
	if fe == nil || len(l.Exits) == 0 {
		return "a factory's construction error does not end the helper with that error", true
	}
	i0 := extractN(call, 0)
	var app *ssa.Call
	instrsOf(h, func(in ssa.Instruction) {
		if c, ok := in.(*ssa.Call); ok && builtinName(&c.Call) == "append" && l.Blocks[c.Block()] {
			if i0 != nil && p.backwardReaches(c.Call.Args[1], func(v ssa.Value) bool { return v == ssa.Value(i0) }) {
				if len(c.Block().Succs) == 1 && c.Block().Succs[0] == l.Header {
					app = c
				}
			}
		}
	})
	if app == nil {
		return "the built interceptor is not appended on the success path", true
	}
	// the return after the loop hands back the accumulated slice and a nil error
	after := l.Header.Succs[1]
	okRet := false
	for _, b := range h.Blocks {
		ret, ok := b.Instrs[len(b.Instrs)-1].(*ssa.Return)
		if !ok || !(b == after || after.Dominates(b)) {
			continue
		}
		if len(ret.Results) == 2 && isNilConst(p.origin(ret.Results[1])) && p.backwardReaches(ret.Results[0], func(v ssa.Value) bool { return v == ssa.Value(app) }) {
			okRet = true
		} else {
			return "the helper does not return the slice of all built interceptors with a nil error after the loop", true
		}
	}
	if !okRet {
		return "the helper does not return the slice of all built interceptors after the loop", true
	}
	// ---- the link in Build
	he := errExtract(via)
	h0 := extractN(via, 0)
	if he == nil || h0 == nil {
		return "Build does not take both results of the helper", true
	}
	okChain, okNoOp, okErr := false, false, false
	for _, b := range fn.Blocks {
		ret, ok := b.Instrs[len(b.Instrs)-1].(*ssa.Return)
		if !ok {
			continue
		}
		if p.origin(ret.Results[1]) == ssa.Value(he) && p.nilnessAt(he, b) == 1 {
			okErr = true
			continue
		}
		v := ret.Results[0]
		if mi, ok := v.(*ssa.MakeInterface); ok {
			switch x := mi.X.(type) {
			case *ssa.Call:
				if sc := x.Call.StaticCallee(); sc != nil && strings.HasSuffix(funcKey(sc), ".NewChain") {
					if p.origin(x.Call.Args[0]) == ssa.Value(h0) && p.nilnessAt(he, b) == -1 {
						okChain = true
					} else {
						return "the chain is not built from the helper's result on the helper's success path", true
					}
				}
			case *ssa.Alloc:
				if strings.HasSuffix(typeKey(x.Type()), "NoOp") {
					for _, f := range dominatingFacts(b) {
						if bo, ok := f.cond.(*ssa.BinOp); ok && bo.Op == token.EQL && isConstInt(bo.Y, 0) && f.truth {
							okNoOp = true
						}
					}
					if !okNoOp {
						return "a NoOp is returned although the registry may hold factories", true
					}
				}
			}
		}
	}
	if !okErr {
		return "a factory's construction error does not end Build with that error", true
	}
	if !okChain {
		return "the chain is not built from all constructed interceptors", true
	}
	return "", true
}

// eachLike: h ranges exhaustively over a slice held by its receiver and calls one of its function parameters exactly
// once per element, with the element, unconditionally, and does nothing else with the members. Returns the index of
// that parameter and the slice's type.
func eachLike(p *Prog, h *ssa.Function) (int, types.Type, bool) {
	if h == nil || h.Blocks == nil || h.Signature.Recv() == nil || len(h.Params) < 2 {
		return 0, nil, false
	}
	loops := findRangeLoops(h)
	if len(loops) != 1 {
		return 0, nil, false
	}
	l := loops[0]
	// the slice is a field of the receiver (by value or by pointer)
	fromRecv := false
	switch x := p.origin(l.Slice).(type) {
	case *ssa.Field:
		fromRecv = p.origin(x.X) == ssa.Value(h.Params[0])
	case *ssa.UnOp:
		if fa, ok := x.X.(*ssa.FieldAddr); ok && x.Op == token.MUL {
			r := p.origin(addrRoot(fa))
			if r == ssa.Value(h.Params[0]) {
				fromRecv = true
			}
			if al, ok := r.(*ssa.Alloc); ok { // spilled value receiver
				for _, st := range p.storesInto(al) {
					if st.Addr == ssa.Value(al) && p.origin(st.Val) == ssa.Value(h.Params[0]) {
						fromRecv = true
					}
				}
			}
		}
	}
	if !fromRecv || len(l.Exits) > 0 {
		return 0, nil, false
	}
	idx := -1
	n := 0
	bad := false
	for b := range l.Blocks {
		if b != l.Header && len(b.Succs) != 1 {
			bad = true
		}
		for _, in := range b.Instrs {
			c, ok := in.(*ssa.Call)
			if !ok || builtinName(&c.Call) != "" {
				continue
			}
			par, isPar := p.origin(c.Call.Value).(*ssa.Parameter)
			if !isPar || c.Call.IsInvoke() || len(c.Call.Args) < 1 || !l.isElem(p, c.Call.Args[0]) {
				bad = true
				continue
			}
			n++
			for i, q := range h.Params {
				if q == par {
					idx = i
				}
			}
		}
	}
	if bad || n != 1 || idx < 1 {
		return 0, nil, false
	}
	return idx, l.Slice.Type(), true
}

// k1Visitor: the chain method hands a function literal to an each-like helper of the list that holds the members
// (`c.members.each(func(m Interceptor) { m.UnbindLocalStream(ctx) })`), or — for Close — a method expression to a
// collecting helper built on it. The literal is the loop body: exactly one call of the same-named method on its
// member parameter, on every path; Bind folds its result through a variable of the method; Close keeps every result.
func k1Visitor(p *Prog, fn *ssa.Function, m string, chainKey string) (string, bool) {
	var via *ssa.Call
	n := 0
	instrsOf(fn, func(in ssa.Instruction) {
		c, ok := in.(*ssa.Call)
		if !ok {
			return
		}
		sc := c.Call.StaticCallee()
		if sc == nil || !p.InUniverse(sc) || sc.Signature.Recv() == nil || len(c.Call.Args) < 2 {
			return
		}
		// the receiver is (a field of) the chain
		if r := p.origin(addrRoot(c.Call.Args[0])); r != ssa.Value(fn.Params[0]) {
			if u, ok := p.origin(c.Call.Args[0]).(*ssa.UnOp); !ok || p.origin(addrRoot(u.X)) != ssa.Value(fn.Params[0]) {
				return
			}
		}
		via = c
		n++
	})
	if n != 1 {
		return "", false
	}
	h := via.Call.StaticCallee()
	iface := p.rootNamed("Interceptor")
	memberCallIn := func(lit *ssa.Function) (*ssa.Call, string) {
		var calls []*ssa.Call
		instrsOf(lit, func(in ssa.Instruction) {
			if c, ok := in.(*ssa.Call); ok && c.Call.IsInvoke() && types.Identical(c.Call.Value.Type(), iface) {
				calls = append(calls, c)
			}
		})
		if len(calls) != 1 {
			return nil, fmt.Sprintf("expected exactly one call on a chain member per visit, found %d", len(calls))
		}
		c := calls[0]
		if !onEveryPath(lit, c) {
			return nil, "the member call is conditional inside the visit"
		}
		if c.Call.Method.Name() != m {
			return nil, fmt.Sprintf("members receive %s instead of %s", c.Call.Method.Name(), m)
		}
		return c, ""
	}
	if m == "Close" {
		// collect(op): each(func(member) { results = append(results, op(member)) }); return results
		var inner *ssa.Call
		k := 0
		instrsOf(h, func(in ssa.Instruction) {
			if c, ok := in.(*ssa.Call); ok {
				if sc := c.Call.StaticCallee(); sc != nil && p.InUniverse(sc) {
					if _, _, ok := eachLike(p, sc); ok {
						inner = c
						k++
					}
				}
			}
		})
		if k != 1 {
			return "", false
		}
		pi, _, _ := eachLike(p, inner.Call.StaticCallee())
		if pi >= len(inner.Call.Args) {
			return "", false
		}
		mc, ok := p.origin(inner.Call.Args[pi]).(*ssa.MakeClosure)
		if !ok {
			return "", false
		}
		lit := mc.Fn.(*ssa.Function)
		// the literal appends op(member) unconditionally
		var opCall *ssa.Call
		instrsOf(lit, func(in ssa.Instruction) {
			if c, ok := in.(*ssa.Call); ok && builtinName(&c.Call) == "" && !c.Call.IsInvoke() && c.Call.StaticCallee() == nil {
				opCall = c
			}
		})
		if opCall == nil || !onEveryPath(lit, opCall) {
			return "a member's Close result is not collected on every visit", true
		}
		appended := false
		instrsOf(lit, func(in ssa.Instruction) {
			if c, ok := in.(*ssa.Call); ok && builtinName(&c.Call) == "append" && onEveryPath(lit, c) && p.backwardReaches(c.Call.Args[1], func(v ssa.Value) bool { return v == ssa.Value(opCall) }) {
				appended = true
			}
		})
		if !appended {
			return "a member's Close error is not appended unconditionally", true
		}
		// what fn passes as op calls Close on the member
		var opArg ssa.Value
		for i := 1; i < len(via.Call.Args); i++ {
			if _, isSig := via.Call.Args[i].Type().Underlying().(*types.Signature); isSig {
				opArg = via.Call.Args[i]
			}
		}
		var opFn *ssa.Function
		switch x := p.origin(opArg).(type) {
		case *ssa.Function:
			opFn = x
		case *ssa.MakeClosure:
			opFn = x.Fn.(*ssa.Function)
		}
		if opFn == nil {
			return "", false
		}
		closes := 0
		instrsOf(opFn, func(in ssa.Instruction) {
			if c, ok := in.(ssa.CallInstruction); ok && c.Common().IsInvoke() && c.Common().Method.Name() == "Close" {
				closes++
			}
		})
		if closes != 1 {
			return "the function applied to each member does not call its Close exactly once", true
		}
		for _, b := range fn.Blocks {
			ret, ok := b.Instrs[len(b.Instrs)-1].(*ssa.Return)
			if !ok {
				continue
			}
			fc, ok := ret.Results[0].(*ssa.Call)
			if !ok || fc.Call.StaticCallee() == nil || !strings.HasSuffix(funcKey(fc.Call.StaticCallee()), "lattenErrs") && !strings.Contains(funcKey(fc.Call.StaticCallee()), "K2Flatten") {
				return "Close does not return flattenErrs(errs)", true
			}
			if !p.backwardReaches(fc.Call.Args[0], func(v ssa.Value) bool { return v == ssa.Value(via) }) {
				return "the members' Close errors do not reach flattenErrs", true
			}
		}
		return "", true
	}
	pi, _, ok := eachLike(p, h)
	if !ok || pi >= len(via.Call.Args) {
		return "", false
	}
	if !onEveryPath(fn, via) {
		return "the helper that visits the members is called conditionally", true
	}
	mc, ok := p.origin(via.Call.Args[pi]).(*ssa.MakeClosure)
	if !ok {
		return "", false
	}
	lit := mc.Fn.(*ssa.Function)
	call, why := memberCallIn(lit)
	if why != "" {
		return why, true
	}
	if len(lit.Params) == 0 || p.origin(call.Call.Value) != ssa.Value(lit.Params[0]) {
		return "the call's receiver is not the visited member", true
	}
	switch {
	case strings.HasPrefix(m, "Unbind"):
		if p.origin(call.Call.Args[0]) != ssa.Value(fn.Params[1]) {
			return "members receive a different StreamInfo", true
		}
	case strings.HasPrefix(m, "Bind"):
		args := call.Call.Args
		// the running result lives in a variable of the method that the literal captures: read, handed to the member,
		// overwritten with the member's result
		ld, ok := args[len(args)-1].(*ssa.UnOp)
		if !ok || ld.Op != token.MUL {
			return "the value handed to each member is not the running result", true
		}
		cell := cellAddr(ld.X)
		al, ok := cell.(*ssa.Alloc)
		if !ok || al.Parent() != fn {
			return "the value handed to each member is not the running result", true
		}
		stored := false
		instrsOf(lit, func(in ssa.Instruction) {
			if st, ok := in.(*ssa.Store); ok && cellAddr(st.Addr) == cell && st.Val == ssa.Value(call) {
				stored = true
			}
		})
		if !stored {
			return "the running result is not folded from the argument through each member's result", true
		}
		par := fn.Params[len(fn.Params)-1]
		initOK := false
		for _, st := range p.storesToCell(al) {
			if st.Parent() == fn && p.origin(st.Val) == ssa.Value(par) {
				initOK = true
			}
		}
		if !initOK {
			return "the running result does not start as the method's argument", true
		}
		for i := 0; i < len(args)-1; i++ {
			if p.origin(args[i]) != ssa.Value(fn.Params[i+1]) {
				return "members receive a different StreamInfo", true
			}
		}
		for _, b := range fn.Blocks {
			if ret, ok := b.Instrs[len(b.Instrs)-1].(*ssa.Return); ok {
				u, ok := ret.Results[0].(*ssa.UnOp)
				if !ok || cellAddr(u.X) != cell {
					return "the returned value is not the folded result at " + p.instrPos(ret), true
				}
			}
		}
	}
	return "", true
}
