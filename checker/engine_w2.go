package main

// W2 — arithmetic is done in the width its result needs. Go evaluates `a << 16`, `a - b`, `a * b` in the type of the
// operands and converts afterwards: `uint64(ssrc<<16)` has already lost the upper half of a 32-bit ssrc when it is
// widened; an unsigned `a - b` with b > a is a number near 2^64. Two forms:
//   (a) a left shift by a constant whose result is converted to a wider integer type (bits shifted out are gone:
//       two SSRCs that agree in their low 16 bits get the same key);
//   (b) a slice size (make) that is a difference of unsigned operands not ordered by a dominating comparison (the
//       wrapped difference is ~2^64: `makeslice: cap out of range` panics in the caller).
// (A third form — an unsigned difference widened to a signed type, `int64(a - b)` — is not judged: the unwrapper's
// `int64(i - lastWrapped)` is exactly that, on purpose: a delta modulo 2^16 that is corrected afterwards.)

import (
	"fmt"
	"go/token"
	"go/types"
	"sort"
	"strings"

	"golang.org/x/tools/go/ssa"
)

func init() {
	registerEngine("W2", []string{"W2", "W3", "W4"}, runEngineW2)
}

func intInfo(t types.Type) (bits int, unsigned bool, ok bool) {
	b, isB := t.Underlying().(*types.Basic)
	if !isB {
		return 0, false, false
	}
	switch b.Kind() {
	case types.Int8:
		return 8, false, true
	case types.Int16:
		return 16, false, true
	case types.Int32:
		return 32, false, true
	case types.Int64, types.Int:
		return 64, false, true
	case types.Uint8:
		return 8, true, true
	case types.Uint16:
		return 16, true, true
	case types.Uint32:
		return 32, true, true
	case types.Uint64, types.Uint, types.Uintptr:
		return 64, true, true
	}
	return 0, false, false
}

func runEngineW2(p *Prog, o *obls) {
	type finding struct{ pos, msg string }
	per := map[*ssa.Function][]finding{}
	looked := map[*ssa.Function]int{}
	nConv, nMake := 0, 0
	for _, fn := range p.Funcs {
		if fn.Blocks == nil || !p.InUniverse(fn) {
			continue
		}
		instrsOf(fn, func(in ssa.Instruction) {
			switch x := in.(type) {
			case *ssa.Convert:
				tb, _, ok1 := intInfo(x.Type())
				sb, _, ok2 := intInfo(x.X.Type())
				if !ok1 || !ok2 || tb <= sb {
					return
				}
				bo, ok := x.X.(*ssa.BinOp)
				if !ok {
					return
				}
				switch bo.Op {
				case token.SHL:
					c, isC := bo.Y.(*ssa.Const)
					if !isC {
						return
					}
					nConv++
					looked[fn]++
					// harmless when the operand was itself widened from something that fits after the shift
					if cv, isCv := bo.X.(*ssa.Convert); isCv {
						if ib, _, ok := intInfo(cv.X.Type()); ok {
							if k, exact := constInt64(c); exact && int64(ib)+k <= int64(sb) {
								return
							}
						}
					}
					per[fn] = append(per[fn], finding{p.instrPos(x), fmt.Sprintf("the shift at %s is done in %d bits and widened to %d afterwards: the bits shifted out are lost before the conversion", p.instrPos(bo), sb, tb)})
				}
			case *ssa.MakeSlice:
				for _, sz := range []ssa.Value{x.Len, x.Cap} {
					if sz == nil {
						continue
					}
					var sub *ssa.BinOp
					seen := map[ssa.Value]bool{}
					var find func(v ssa.Value, d int)
					find = func(v ssa.Value, d int) {
						if v == nil || seen[v] || d > 4 || sub != nil {
							return
						}
						seen[v] = true
						switch y := v.(type) {
						case *ssa.BinOp:
							if _, u, ok := intInfo(y.Type()); ok && u && y.Op == token.SUB {
								if _, isC := y.Y.(*ssa.Const); !isC {
									sub = y
									return
								}
							}
							find(y.X, d+1)
							find(y.Y, d+1)
						case *ssa.Convert:
							find(y.X, d+1)
						}
					}
					find(sz, 0)
					if sub == nil {
						continue
					}
					nMake++
					looked[fn]++
					// ordered by a dominating comparison of the two operands (any of < <= > >=), whichever way
					ordered := false
					kx, ky := p.pureKey(sub.X), p.pureKey(sub.Y)
					same := func(a ssa.Value, k string, v ssa.Value) bool {
						return a == v || p.origin(a) == p.origin(v) || k != "" && p.pureKey(a) == k
					}
					for _, f := range dominatingFactsInstr(x) {
						f = normFact(f)
						bo, ok := f.cond.(*ssa.BinOp)
						if !ok {
							continue
						}
						switch bo.Op {
						case token.LSS, token.LEQ, token.GTR, token.GEQ:
							if same(bo.X, kx, sub.X) && same(bo.Y, ky, sub.Y) || same(bo.X, ky, sub.Y) && same(bo.Y, kx, sub.X) {
								ordered = true
							}
						}
					}
					if !ordered {
						// both operands are parameters: the comparison may be the callers' (drain(first, last) called only
						// behind `if first > last { return }`)
						px, okx := p.origin(sub.X).(*ssa.Parameter)
						py, oky := p.origin(sub.Y).(*ssa.Parameter)
						if okx && oky && px.Parent() == fn && py.Parent() == fn {
							ax, sites, closedX := p.argsForParam(px)
							ay, _, closedY := p.argsForParam(py)
							if closedX && closedY && len(sites) > 0 && len(ax) == len(ay) {
								all := true
								for i, site := range sites {
									if _, isGo := site.(*ssa.Go); isGo {
										all = false
										break
									}
									kax, kay := p.pureKey(ax[i]), p.pureKey(ay[i])
									found := false
									for _, f := range dominatingFactsInstr(site) {
										f = normFact(f)
										bo, ok := f.cond.(*ssa.BinOp)
										if !ok {
											continue
										}
										switch bo.Op {
										case token.LSS, token.LEQ, token.GTR, token.GEQ:
											if same(bo.X, kax, ax[i]) && same(bo.Y, kay, ay[i]) || same(bo.X, kay, ay[i]) && same(bo.Y, kax, ax[i]) {
												found = true
											}
										}
									}
									if !found {
										all = false
									}
								}
								ordered = all
							}
						}
					}
					if !ordered {
						per[fn] = append(per[fn], finding{p.instrPos(x), fmt.Sprintf("the size of the slice made at %s is the unsigned difference at %s, and no comparison of its two operands dominates it: where the subtrahend is larger the size is ~2^64 and make panics", p.instrPos(x), p.instrPos(sub))})
					}
				}
			}
		})
	}
	var fns []*ssa.Function
	for fn := range per {
		fns = append(fns, fn)
	}
	sort.Slice(fns, func(i, j int) bool { return funcKey(fns[i]) < funcKey(fns[j]) })
	for _, fn := range fns {
		var ms []string
		for _, f := range per[fn] {
			ms = append(ms, f.msg)
		}
		sort.Strings(ms)
		o.bad("W2", funcKey(fn)+":width", per[fn][0].pos, strings.Join(dedupe(ms), "; "))
	}
	var okFns []*ssa.Function
	for fn := range looked {
		if len(per[fn]) == 0 {
			okFns = append(okFns, fn)
		}
	}
	sort.Slice(okFns, func(i, j int) bool { return funcKey(okFns[i]) < funcKey(okFns[j]) })
	for _, fn := range okFns {
		o.ok("W2", funcKey(fn)+":width", p.Pos(fn.Pos()), fmt.Sprintf("%d site(s): shifts are done after widening (or cannot lose bits), slice sizes that are unsigned differences are ordered by a dominating comparison", looked[fn]))
	}
	w2DownLoops(p, o)
	w3Tautologies(p, o)
	w4IfaceConst(p, o)
	o.ok("W2", "inspected", "-", fmt.Sprintf("%d widening conversion(s) of a constant shift, %d slice size(s) that are an unsigned difference", nConv, nMake))
}

func constInt64(c *ssa.Const) (int64, bool) {
	if c == nil || c.Value == nil {
		return 0, false
	}
	return c.Int64(), true
}

// W3 — a guard on an unsigned number does not ask whether it is negative. `x >= 0` is true and `x < 0` false for every
// value of an unsigned type: a test written when the operands were signed (`last+delta-65536 >= 0`, "is there an
// earlier cycle to step back into?") keeps compiling when the fields are changed to uint64 "because they never go
// below zero", and stops guarding — the subtraction it was meant to prevent now wraps around 2^64 and comes out as a
// negative number after the conversion back. No comparison of the repository has an unsigned non-constant operand on
// one side and the constant 0 on the other with an operator that makes it a tautology or a contradiction.
func w3Tautologies(p *Prog, o *obls) {
	per := map[*ssa.Function][]string{}
	signedOK := map[*ssa.Function]int{}
	n := 0
	for _, fn := range p.Funcs {
		if fn.Blocks == nil || !p.InUniverse(fn) {
			continue
		}
		instrsOf(fn, func(in ssa.Instruction) {
			bo, ok := in.(*ssa.BinOp)
			if !ok {
				return
			}
			x, y, op := bo.X, bo.Y, bo.Op
			if _, isC := x.(*ssa.Const); isC {
				x, y = y, x
				switch op {
				case token.LSS:
					op = token.GTR
				case token.GTR:
					op = token.LSS
				case token.LEQ:
					op = token.GEQ
				case token.GEQ:
					op = token.LEQ
				}
			}
			_, uns, isInt := intInfo(x.Type())
			if !isInt || !isConstInt(y, 0) {
				return
			}
			if (op == token.GEQ || op == token.LSS) && !uns {
				signedOK[fn]++
			}
			if !uns {
				return
			}
			if _, isC := x.(*ssa.Const); isC {
				return
			}
			switch op {
			case token.GEQ, token.LSS:
				n++
				what := "always true"
				if op == token.LSS {
					what = "always false"
				}
				per[fn] = append(per[fn], fmt.Sprintf("the comparison at %s of the unsigned %s with 0 is %s", p.instrPos(bo), shortExpr(p, x), what))
			}
		})
	}
	var fns []*ssa.Function
	for fn := range per {
		fns = append(fns, fn)
	}
	sort.Slice(fns, func(i, j int) bool { return funcKey(fns[i]) < funcKey(fns[j]) })
	for _, fn := range fns {
		ms := per[fn]
		sort.Strings(ms)
		o.bad("W3", funcKey(fn)+":unsigned-guard", strings.Fields(strings.SplitN(ms[0], " at ", 2)[1])[0], strings.Join(dedupe(ms), "; ")+": whatever the test was meant to exclude is no longer excluded")
	}
	var oks []*ssa.Function
	for fn := range signedOK {
		if len(per[fn]) == 0 {
			oks = append(oks, fn)
		}
	}
	sort.Slice(oks, func(i, j int) bool { return funcKey(oks[i]) < funcKey(oks[j]) })
	for _, fn := range oks {
		o.ok("W3", funcKey(fn)+":unsigned-guard", p.Pos(fn.Pos()), fmt.Sprintf("%d sign test(s) against zero, each on a signed operand", signedOK[fn]))
	}
	o.ok("W3", "inspected", "-", fmt.Sprintf("%d tautological comparison(s) of an unsigned value with zero", n))
}

// W4 — an interface value is compared with a constant of the type it holds. Comparing an `any` with a constant boxes
// the constant in its *default* type: `v != 0` compares with int(0). The function that has just asserted `v.(uint8)`
// knows v holds a uint8, and a uint8 is never equal to an int whatever their values: the test is always true (or, for
// ==, always false), and the zero value it was meant to single out — "extension ID 0 means not negotiated" — takes
// the other branch. In every function: an interface value that is type-asserted to a basic type T is not compared
// (==, !=) with a constant whose boxed type differs from T.
func w4IfaceConst(p *Prog, o *obls) {
	n := 0
	for _, fn := range p.Funcs {
		if fn.Blocks == nil || !p.InUniverse(fn) {
			continue
		}
		asserted := map[ssa.Value]types.Type{}
		instrsOf(fn, func(in ssa.Instruction) {
			if ta, ok := in.(*ssa.TypeAssert); ok {
				if _, isBasic := ta.AssertedType.Underlying().(*types.Basic); isBasic {
					asserted[p.origin(ta.X)] = ta.AssertedType
				}
			}
		})
		if len(asserted) == 0 {
			continue
		}
		var bad []string
		cmp := 0
		instrsOf(fn, func(in ssa.Instruction) {
			bo, ok := in.(*ssa.BinOp)
			if !ok || bo.Op != token.EQL && bo.Op != token.NEQ {
				return
			}
			for _, pair := range [][2]ssa.Value{{bo.X, bo.Y}, {bo.Y, bo.X}} {
				t, ok := asserted[p.origin(pair[0])]
				if !ok {
					continue
				}
				mi, ok := pair[1].(*ssa.MakeInterface)
				if !ok {
					continue
				}
				c, ok := mi.X.(*ssa.Const)
				if !ok || c.Value == nil {
					continue
				}
				cmp++
				if !types.Identical(c.Type(), t) {
					bad = append(bad, fmt.Sprintf("the value asserted to %s is compared at %s with the constant %s, which is boxed as %s", t.String(), p.instrPos(bo), c.Value.String(), c.Type().String()))
				}
			}
		})
		if cmp == 0 {
			continue
		}
		n++
		key := funcKey(fn) + ":iface-const"
		if len(bad) > 0 {
			sort.Strings(bad)
			o.bad("W4", key, strings.Fields(strings.SplitN(bad[0], " at ", 2)[1])[0], strings.Join(dedupe(bad), "; ")+": values of different dynamic types are never equal — the comparison has one outcome whatever the value, and the case it was meant to single out takes the other branch")
		} else {
			o.ok("W4", key, p.Pos(fn.Pos()), fmt.Sprintf("%d comparison(s) of an asserted interface value with a constant of the asserted type", cmp))
		}
	}
	o.ok("W4", "inspected", "-", fmt.Sprintf("%d function(s) comparing a type-asserted interface value with a constant", n))
}
