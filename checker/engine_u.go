package main

// U1 — state that is only meaningful once a "first packet seen" flag is set is not consulted before the flag. The
// repository's rings, unwrappers and logs all start the same way: `if !x.started { x.started = true; x.newest = seq;
// … }`. The fields the first-packet branch assigns (newest, the playout head, the last unwrapped value) hold their
// zero value until then, and the zero value is not "no packet yet": sequence number 0 is a sequence number. A fast path
// placed ahead of the flag test that compares the incoming number with such a field (`seq == r.highestAdded+1`) treats
// a fresh object as one that has seen packet 0: the first packet is filed as an in-order successor, the flag is never
// set, and the first out-of-order packet later re-initialises the ring and wipes what it held.
//
// For every function that contains such a first-packet branch (the false edge of a test of a bool field, whose region
// sets that field to true), every load — in the same function — of a field the branch assigns (same object) must be
// dominated by the flag test. A load that can execute before the test, and from which the test is still reachable, reads
// a value that may not have been initialised.

import (
	"fmt"
	"go/token"
	"go/types"
	"sort"
	"strings"

	"golang.org/x/tools/go/ssa"
)

func init() {
	registerEngine("U", []string{"U1", "U2"}, runEngineU)
}

func runEngineU(p *Prog, o *obls) {
	n := 0
	for _, fn := range p.Funcs {
		if fn.Blocks == nil {
			continue
		}
		for _, b := range fn.Blocks {
			c := ifCond(b)
			if c == nil || len(b.Succs) != 2 || b.Succs[0] == b.Succs[1] {
				continue
			}
			var initSucc *ssa.BasicBlock
			var flagAddr *ssa.FieldAddr
			for i := 0; i < 2; i++ {
				f := normFact(condFact{c, i == 0})
				u, ok := f.cond.(*ssa.UnOp)
				if !ok || u.Op != token.MUL || f.truth {
					continue
				}
				fa, ok := u.X.(*ssa.FieldAddr)
				if !ok {
					continue
				}
				if bt, ok := deref(fa.Type()).Underlying().(*types.Basic); !ok || bt.Kind() != types.Bool {
					continue
				}
				initSucc, flagAddr = b.Succs[i], fa
			}
			if initSucc == nil || len(initSucc.Preds) != 1 {
				continue
			}
			flagKey := p.pureKey(flagAddr)
			objKey := p.pureKey(flagAddr.X)
			// the region of the first-packet branch, what it assigns, and whether it sets the flag
			setsFlag := false
			guarded := map[string]string{} // pure key of the field address -> field key
			for _, rb := range fn.Blocks {
				if !initSucc.Dominates(rb) {
					continue
				}
				for _, in := range rb.Instrs {
					st, ok := in.(*ssa.Store)
					if !ok {
						continue
					}
					fa, ok := st.Addr.(*ssa.FieldAddr)
					if !ok || p.pureKey(fa.X) != objKey {
						continue
					}
					if k := p.pureKey(fa); k == flagKey {
						if cst, ok := st.Val.(*ssa.Const); ok && cst.Value != nil && cst.Value.String() == "true" {
							setsFlag = true
						}
					} else {
						guarded[k] = fieldKeyAddr(fa)
					}
				}
			}
			if !setsFlag || len(guarded) == 0 {
				continue
			}
			n++
			test := b.Instrs[len(b.Instrs)-1]
			key := fmt.Sprintf("%s:first-packet(%s)", funcKey(fn), fieldName(fieldKeyAddr(flagAddr)))
			var bad []string
			instrsOf(fn, func(in ssa.Instruction) {
				u, ok := in.(*ssa.UnOp)
				if !ok || u.Op != token.MUL {
					return
				}
				fa, ok := u.X.(*ssa.FieldAddr)
				if !ok {
					return
				}
				fk, isG := guarded[p.pureKey(fa)]
				if !isG {
					return
				}
				if in.Block() == b || b.Dominates(in.Block()) {
					return
				}
				if !canReach(in, test) {
					return
				}
				used := false
				if u.Referrers() != nil {
					for _, r := range *u.Referrers() {
						if _, isDbg := r.(*ssa.DebugRef); !isDbg {
							used = true
						}
					}
				}
				if used {
					bad = append(bad, fmt.Sprintf("%s is read at %s", fieldName(fk), p.instrPos(in)))
				}
			})
			var gs []string
			for _, fk := range guarded {
				gs = append(gs, fieldName(fk))
			}
			sort.Strings(gs)
			// U2: the packet path does not reset its own first-packet flag. The flag goes back to false when the object
			// is cleared from outside (Unbind, Close, Clear); a store of false reachable from the function that has the
			// first-packet branch makes the *next* packet a first packet again: the newest-mark is re-seeded from
			// whatever arrives (possibly a late packet, moving it backwards) and no gap handling runs for it.
			{
				flagField := fieldOfAddr(flagAddr)
				var resets []string
				for f := range reachableFuncs(p, []*ssa.Function{fn}, false) {
					instrsOf(f, func(in ssa.Instruction) {
						st, ok := in.(*ssa.Store)
						if !ok {
							return
						}
						fa, ok := st.Addr.(*ssa.FieldAddr)
						if !ok || fieldOfAddr(fa) != flagField || freshlyBuilt(p, fa, f) {
							return
						}
						if cst, ok := st.Val.(*ssa.Const); ok && cst.Value != nil && cst.Value.String() == "false" {
							resets = append(resets, fmt.Sprintf("%s (in %s)", p.instrPos(st), funcKey(f)))
						}
					})
				}
				k2 := fmt.Sprintf("%s:flag-reset(%s)", funcKey(fn), fieldName(fieldKeyAddr(flagAddr)))
				if len(resets) > 0 {
					sort.Strings(resets)
					o.bad("U2", k2, p.instrPos(test), fmt.Sprintf("the function that handles the first packet can itself set %s back to false at %s: the next packet is then treated as the first one — the state the first-packet branch seeds is overwritten from whatever arrives next, without the handling a later packet gets", fieldName(fieldKeyAddr(flagAddr)), strings.Join(dedupe(resets), ", ")))
				} else {
					o.ok("U2", k2, p.instrPos(test), "nothing reachable from this function sets the flag back to false")
				}
			}
			if len(bad) > 0 {
				sort.Strings(bad)
				o.bad("U1", key, p.instrPos(test), fmt.Sprintf("%s before the test of %s at %s, whose first-packet branch is what initialises it: on a fresh object the zero value is taken for a packet that was seen (the first packet is filed as a successor of number 0 and the flag is never set)", strings.Join(dedupe(bad), ", "), fieldName(fieldKeyAddr(flagAddr)), p.instrPos(test)))
			} else {
				o.ok("U1", key, p.instrPos(test), fmt.Sprintf("the first-packet branch initialises %s; no read of them in this function precedes the flag test", strings.Join(dedupe(gs), ", ")))
			}
		}
	}
	o.ok("U1", "inspected", "-", fmt.Sprintf("%d first-packet branch(es)", n))
	o.ok("U2", "inspected", "-", fmt.Sprintf("%d first-packet branch(es)", n))
}

func fieldName(fk string) string {
	if i := strings.LastIndex(fk, "."); i >= 0 {
		return fk[i+1:]
	}
	return fk
}
