package main

// Interprocedural helpers shared by the path rules. The rules were first written against one function body each; a
// behaviour-preserving "extract function" refactoring moves part of the path into a helper. These helpers let a rule
//   - count events through calls to helpers, correlated with the helper's error result (evSummary / pathCountsW),
//   - inherit a dominating fact or a property of an argument from every caller of a helper (staticCallSites,
//     allCallersSatisfy, argsForParam),
//   - enumerate the helpers a function delegates to (calleeGroup).
// Only static calls to universe functions whose every use is a call are followed (closed = the call sites are all of
// them), to a fixed depth; anything else is left to the rule's intraprocedural answer.

import (
	"go/token"
	"go/types"

	"golang.org/x/tools/go/ssa"
)

const ipDepth = 4

// staticCallSites returns the call sites of fn and whether they are all of them: fn is unexported, is never used as
// a value (method value, function value, go/defer of a value) and no interface of the universe declares its name.
func (p *Prog) staticCallSites(fn *ssa.Function) (sites []ssa.CallInstruction, closed bool) {
	if p.callSiteCache == nil {
		p.callSiteCache = map[*ssa.Function][]ssa.CallInstruction{}
		p.valueUse = map[*ssa.Function]bool{}
		p.ifaceMethodNames = map[string]bool{}
		for _, f := range p.Funcs {
			instrsOf(f, func(in ssa.Instruction) {
				if ci, ok := in.(ssa.CallInstruction); ok {
					if sc := ci.Common().StaticCallee(); sc != nil {
						p.callSiteCache[sc] = append(p.callSiteCache[sc], ci)
						if o := sc.Origin(); o != nil && o != sc {
							p.callSiteCache[o] = append(p.callSiteCache[o], ci)
						}
					}
				}
				for _, op := range in.Operands(nil) {
					if *op == nil {
						continue
					}
					g, ok := (*op).(*ssa.Function)
					if !ok {
						continue
					}
					if ci, ok := in.(ssa.CallInstruction); ok && ci.Common().Value == ssa.Value(g) {
						continue
					}
					p.valueUse[g] = true
				}
				if mc, ok := in.(*ssa.MakeClosure); ok {
					// bound method wrappers: the method is used as a value
					if w, ok := mc.Fn.(*ssa.Function); ok && w.Synthetic != "" {
						instrsOf(w, func(in2 ssa.Instruction) {
							if ci, ok := in2.(ssa.CallInstruction); ok {
								if sc := ci.Common().StaticCallee(); sc != nil {
									p.valueUse[sc] = true
								}
							}
						})
					}
				}
			})
		}
		for sp := range p.Universe {
			for _, m := range sp.Members {
				if tn, ok := m.(*ssa.Type); ok {
					if it, ok := tn.Type().Underlying().(*types.Interface); ok {
						for i := 0; i < it.NumMethods(); i++ {
							p.ifaceMethodNames[it.Method(i).Name()] = true
						}
					}
				}
			}
		}
	}
	sites = p.callSiteCache[fn]
	if fn.Parent() != nil {
		return sites, false
	}
	if isExportedName(fn.Name()) || p.valueUse[fn] {
		return sites, false
	}
	if fn.Signature.Recv() != nil && p.ifaceMethodNames[fn.Name()] {
		return sites, false
	}
	return sites, true
}

// allCallersSatisfy: fn has a closed, non-empty set of call sites and pred holds at each of them, or (recursively) at
// every call site of the caller.
func (p *Prog) allCallersSatisfy(fn *ssa.Function, pred func(site ssa.CallInstruction) bool, depth int) bool {
	return p.allCallersSatisfy1(fn, pred, depth, map[*ssa.Function]bool{})
}

func (p *Prog) allCallersSatisfy1(fn *ssa.Function, pred func(site ssa.CallInstruction) bool, depth int, visiting map[*ssa.Function]bool) bool {
	if depth <= 0 || visiting[fn] {
		return false
	}
	visiting[fn] = true
	defer delete(visiting, fn)
	sites, closed := p.staticCallSites(fn)
	if !closed || len(sites) == 0 {
		return false
	}
	for _, s := range sites {
		if _, isGo := s.(*ssa.Go); isGo {
			return false
		}
		if pred(s) {
			continue
		}
		caller := s.Parent()
		for caller.Parent() != nil {
			// the call sits in a literal: the literal's own callers are unknown, stay conservative
			return false
		}
		if !p.allCallersSatisfy1(caller, pred, depth-1, visiting) {
			return false
		}
	}
	return true
}

// argsForParam returns the actual arguments bound to a parameter at every call site (closed = they are all).
func (p *Prog) argsForParam(par *ssa.Parameter) (args []ssa.Value, sites []ssa.CallInstruction, closed bool) {
	fn := par.Parent()
	idx := -1
	for i, q := range fn.Params {
		if q == par {
			idx = i
		}
	}
	if idx < 0 {
		return nil, nil, false
	}
	ss, closed := p.staticCallSites(fn)
	for _, s := range ss {
		a := s.Common().Args
		if idx < len(a) {
			args = append(args, a[idx])
			sites = append(sites, s)
		} else {
			closed = false
		}
	}
	return args, sites, closed
}

// calleeGroup: fn and the universe functions of the same package it reaches through static calls (not go), to ipDepth.
func (p *Prog) calleeGroup(fn *ssa.Function) []*ssa.Function {
	seen := map[*ssa.Function]bool{fn: true}
	out := []*ssa.Function{fn}
	type item struct {
		f *ssa.Function
		d int
	}
	work := []item{{fn, 0}}
	for len(work) > 0 {
		it := work[0]
		work = work[1:]
		if it.d >= ipDepth {
			continue
		}
		for _, g := range allNested(it.f) {
			instrsOf(g, func(in ssa.Instruction) {
				ci, ok := in.(ssa.CallInstruction)
				if !ok {
					return
				}
				if _, isGo := ci.(*ssa.Go); isGo {
					return
				}
				sc := ci.Common().StaticCallee()
				if sc == nil || seen[sc] || !p.InUniverse(sc) || sc.Pkg != fn.Pkg {
					return
				}
				seen[sc] = true
				out = append(out, sc)
				work = append(work, item{sc, it.d + 1})
			})
		}
	}
	return out
}

// ---- weighted path counts ---------------------------------------------------------------------------------------------

func addMask(a, b countMask) countMask {
	var r countMask
	for i := 0; i < 3; i++ {
		if a&(1<<uint(i)) == 0 {
			continue
		}
		for j := 0; j < 3; j++ {
			if b&(1<<uint(j)) == 0 {
				continue
			}
			k := i + j
			if k > 2 {
				k = 2
			}
			r |= 1 << uint(k)
		}
	}
	return r
}

// evWeight is the contribution of one instruction to an event count. A zero value (or plain == {0}) is "no event".
// For a call to a helper with an error result the contribution depends on whether the helper returned nil.
type evWeight struct {
	plain    countMask
	call     *ssa.Call
	onNil    countMask
	onNonNil countMask
}

func (w evWeight) none() bool { return w.call == nil && (w.plain == 0 || w.plain == 1) }

type evTag struct {
	call  *ssa.Call
	isNil bool
}

type tagState map[evTag]countMask

func (s tagState) union() countMask {
	var m countMask
	for _, v := range s {
		m |= v
	}
	return m
}

func (s tagState) apply(w evWeight) tagState {
	if w.none() {
		return s
	}
	out := tagState{}
	if w.call == nil {
		for t, m := range s {
			out[t] |= addMask(m, w.plain)
		}
		return out
	}
	for _, m := range s {
		if w.onNil != 0 {
			out[evTag{w.call, true}] |= addMask(m, w.onNil)
		}
		if w.onNonNil != 0 {
			out[evTag{w.call, false}] |= addMask(m, w.onNonNil)
		}
	}
	return out
}

// errResultOf: v is the error result of a call (the call itself, or the Extract of its last component), possibly
// reloaded from a local cell.
func (p *Prog) errResultOf(v ssa.Value) *ssa.Call {
	v = p.origin(v)
	if ex, ok := v.(*ssa.Extract); ok {
		if c, ok := ex.Tuple.(*ssa.Call); ok && ex.Index == c.Type().(*types.Tuple).Len()-1 && isErrorType(ex.Type()) {
			return c
		}
		return nil
	}
	if c, ok := v.(*ssa.Call); ok && isErrorType(c.Type()) {
		return c
	}
	return nil
}

// edgeErrFact: on the edge b→succ[i], what is known about the error result of a call: (call, isNil, known).
func (p *Prog) edgeErrFact(b *ssa.BasicBlock, i int) (*ssa.Call, bool, bool) {
	c := ifCond(b)
	if c == nil {
		return nil, false, false
	}
	f := normFact(condFact{c, i == 0})
	bo, ok := f.cond.(*ssa.BinOp)
	if !ok || (bo.Op != token.NEQ && bo.Op != token.EQL) {
		return nil, false, false
	}
	var other ssa.Value
	if isNilConst(bo.Y) {
		other = bo.X
	} else if isNilConst(bo.X) {
		other = bo.Y
	} else {
		return nil, false, false
	}
	call := p.errResultOf(other)
	if call == nil {
		return nil, false, false
	}
	isNil := (bo.Op == token.EQL) == f.truth
	return call, isNil, true
}

// pathCountsW is pathCounts with weighted events and path sensitivity on the error results of helper calls. start ==
// nil counts from the function entry; otherwise from the given block (only paths through it, as seededCounts).
func (p *Prog) pathCountsW(fn *ssa.Function, start *ssa.BasicBlock, weight func(ssa.Instruction) evWeight) map[ssa.Instruction]countMask {
	if len(fn.Blocks) == 0 {
		return nil
	}
	entry := fn.Blocks[0]
	if start != nil {
		entry = start
	}
	in := map[*ssa.BasicBlock]tagState{entry: {evTag{}: 1}}
	out := map[*ssa.BasicBlock]tagState{}
	edge := func(pr, b *ssa.BasicBlock) tagState {
		o := out[pr]
		if o == nil {
			return nil
		}
		for i, s := range pr.Succs {
			if s != b {
				continue
			}
			if call, isNil, ok := p.edgeErrFact(pr, i); ok {
				f := tagState{}
				for t, m := range o {
					if t.call == call && t.isNil != isNil {
						continue
					}
					f[t] |= m
				}
				return f
			}
		}
		return o
	}
	same := func(a, b tagState) bool {
		if len(a) != len(b) {
			return false
		}
		for k, v := range a {
			if b[k] != v {
				return false
			}
		}
		return true
	}
	flow := func(b *ssa.BasicBlock, s tagState) tagState {
		for _, ins := range b.Instrs {
			s = s.apply(weight(ins))
		}
		return s
	}
	changed := true
	for iter := 0; changed && iter < 200; iter++ {
		changed = false
		for _, b := range fn.Blocks {
			m := tagState{}
			for t, v := range in[b] {
				m[t] |= v
			}
			for _, pr := range b.Preds {
				if start != nil && b == start && !start.Dominates(pr) {
					continue
				}
				for t, v := range edge(pr, b) {
					m[t] |= v
				}
			}
			if !same(m, in[b]) {
				in[b] = m
				changed = true
			}
			o := flow(b, m)
			if !same(o, out[b]) {
				out[b] = o
				changed = true
			}
		}
	}
	before := map[ssa.Instruction]countMask{}
	for _, b := range fn.Blocks {
		s := in[b]
		for _, ins := range b.Instrs {
			before[ins] = s.union()
			s = s.apply(weight(ins))
		}
	}
	return before
}

// evSummary: the event counts of a whole call of fn, split by the nil-ness of its error result when it has one.
type evSummary struct {
	split           bool
	any             countMask
	onNil, onNonNil countMask
	hasLoopEvent    bool // an event lies inside a loop of fn (the count per call is unbounded)
}

// ipCounter computes weights for instructions from a base event predicate, following static calls into helpers.
type ipCounter struct {
	p      *Prog
	base   func(ssa.Instruction) bool
	follow func(*ssa.Function) bool
	// retAdjust lets a rule reinterpret the count at a return (e.g. a return on the send branch of a select = 1)
	retAdjust func(fn *ssa.Function, ret *ssa.Return, m countMask) countMask
	memo      map[*ssa.Function]*evSummary
	visiting  map[*ssa.Function]bool
}

func (p *Prog) newIPCounter(base func(ssa.Instruction) bool, follow func(*ssa.Function) bool) *ipCounter {
	return &ipCounter{p: p, base: base, follow: follow, memo: map[*ssa.Function]*evSummary{}, visiting: map[*ssa.Function]bool{}}
}

func (c *ipCounter) weight(in ssa.Instruction) evWeight {
	if c.base(in) {
		return evWeight{plain: 2}
	}
	call, ok := in.(*ssa.Call)
	if !ok {
		return evWeight{}
	}
	sc := call.Call.StaticCallee()
	if sc == nil || !c.p.InUniverse(sc) || sc.Blocks == nil || (c.follow != nil && !c.follow(sc)) {
		return evWeight{}
	}
	s := c.summary(sc)
	if s == nil {
		return evWeight{}
	}
	if s.split {
		if (s.onNil == 0 || s.onNil == 1) && (s.onNonNil == 0 || s.onNonNil == 1) {
			return evWeight{}
		}
		return evWeight{call: call, onNil: s.onNil, onNonNil: s.onNonNil}
	}
	return evWeight{plain: s.any}
}

func (c *ipCounter) summary(fn *ssa.Function) *evSummary {
	if s, ok := c.memo[fn]; ok {
		return s
	}
	if c.visiting[fn] || len(c.visiting) >= ipDepth {
		return nil
	}
	c.visiting[fn] = true
	defer delete(c.visiting, fn)
	s := &evSummary{}
	res := fn.Signature.Results()
	s.split = res.Len() > 0 && isErrorType(res.At(res.Len()-1).Type())
	before := c.p.pathCountsW(fn, nil, c.weight)
	for _, b := range fn.Blocks {
		ret, ok := b.Instrs[len(b.Instrs)-1].(*ssa.Return)
		if !ok || b == fn.Recover {
			continue
		}
		m := before[ret]
		if m == 0 {
			continue // unreachable
		}
		if c.retAdjust != nil {
			m = c.retAdjust(fn, ret, m)
		}
		s.any |= m
		if s.split {
			ev := ret.Results[len(ret.Results)-1]
			switch {
			case isNilConst(c.p.origin(ev)):
				s.onNil |= m
			case c.p.nonNilError(ev, b):
				s.onNonNil |= m
			default:
				s.onNil |= m
				s.onNonNil |= m
			}
		}
	}
	loops := naturalLoops(fn)
	for _, body := range loops {
		for b := range body {
			for _, in := range b.Instrs {
				if !c.weight(in).none() {
					s.hasLoopEvent = true
				}
			}
		}
	}
	c.memo[fn] = s
	return s
}
