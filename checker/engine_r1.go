package main

// R1 — a message received from a channel is read, not rewritten. The pipelines of the library hand batches from one
// goroutine to the next over channels, and one batch can be handed to more than one consumer (the delay controller
// sends the same []Acknowledgment to the arrival-group accumulator and to the rate calculator). The sender does not
// copy per consumer, so a consumer that sorts, reverses, compacts or otherwise writes the received slice in place
// changes it under the other consumer's feet — unsynchronised, while that one is ranging over it.
//
// For every slice or map received from a channel (a receive expression, or the variable of a range over a channel):
// no store through an element of it, no copy into it, no append onto a re-slice of it, and it is not handed to the
// standard library's in-place algorithms (sort.*, slices.Sort*/Reverse/Compact*/Delete*/Insert, and friends).

import (
	"fmt"
	"go/token"
	"go/types"
	"sort"
	"strings"

	"golang.org/x/tools/go/ssa"
)

func init() {
	registerEngine("R1", []string{"R1"}, runEngineR1)
}

var inPlaceAlgos = map[string]bool{
	"sort.Slice": true, "sort.SliceStable": true, "sort.Sort": true, "sort.Stable": true, "sort.Ints": true, "sort.Strings": true, "sort.Float64s": true,
	"slices.Sort": true, "slices.SortFunc": true, "slices.SortStableFunc": true, "slices.Reverse": true, "slices.Compact": true, "slices.CompactFunc": true,
	"slices.Delete": true, "slices.DeleteFunc": true, "slices.Insert": true, "slices.Replace": true, "slices.Grow": false,
}

func runEngineR1(p *Prog, o *obls) {
	n := 0
	for _, fn := range p.Funcs {
		if fn.Blocks == nil || !p.InUniverse(fn) {
			continue
		}
		var msgs []ssa.Value
		instrsOf(fn, func(in ssa.Instruction) {
			switch x := in.(type) {
			case *ssa.UnOp:
				if x.Op != token.ARROW {
					return
				}
				t := x.Type()
				if tup, ok := t.(*types.Tuple); ok {
					t = tup.At(0).Type()
				}
				switch t.Underlying().(type) {
				case *types.Slice, *types.Map:
					msgs = append(msgs, x)
				}
			case *ssa.Select:
				for i, st := range x.States {
					if st.Dir != types.RecvOnly {
						continue
					}
					et := st.Chan.Type().Underlying().(*types.Chan).Elem()
					switch et.Underlying().(type) {
					case *types.Slice, *types.Map:
						// the received value is Extract #(2+k) of the select tuple
						if x.Referrers() != nil {
							k := 0
							for j := 0; j < i; j++ {
								if x.States[j].Dir == types.RecvOnly {
									k++
								}
							}
							for _, r := range *x.Referrers() {
								if ex, ok := r.(*ssa.Extract); ok && ex.Index == 2+k {
									msgs = append(msgs, ex)
								}
							}
						}
					}
				}
			}
		})
		if len(msgs) == 0 {
			continue
		}
		n++
		var bad []string
		for _, m := range msgs {
			seen := map[ssa.Value]bool{}
			var follow func(v ssa.Value, d int)
			follow = func(v ssa.Value, d int) {
				if seen[v] || v.Referrers() == nil || d > 4 {
					return
				}
				seen[v] = true
				for _, r := range *v.Referrers() {
					switch x := r.(type) {
					case *ssa.Extract:
						if x.Index == 0 {
							follow(x, d+1)
						}
					case *ssa.Phi:
						follow(x, d+1)
					case *ssa.Store:
						// kept in a local variable that a closure captures (sort.Slice's less function): the loads of that cell
						if al, ok := x.Addr.(*ssa.Alloc); ok && x.Val == v {
							for _, nf := range allNested(fn) {
								instrsOf(nf, func(in2 ssa.Instruction) {
									if ld, ok := in2.(*ssa.UnOp); ok && ld.Op == token.MUL && cellAddr(ld.X) == ssa.Value(al) {
										follow(ld, d+1)
									}
								})
							}
						}
					case *ssa.Slice:
						if x.X == v {
							follow(x, d+1)
						}
					case *ssa.IndexAddr:
						if x.X == v && x.Referrers() != nil {
							for _, r2 := range *x.Referrers() {
								if st, ok := r2.(*ssa.Store); ok && st.Addr == ssa.Value(x) {
									bad = append(bad, fmt.Sprintf("an element is assigned at %s", p.instrPos(st)))
								}
							}
						}
					case *ssa.MapUpdate:
						if x.Map == v {
							bad = append(bad, fmt.Sprintf("an entry is assigned at %s", p.instrPos(x)))
						}
					case *ssa.Call:
						switch builtinName(&x.Call) {
						case "copy":
							if x.Call.Args[0] == v {
								bad = append(bad, fmt.Sprintf("it is copied into at %s", p.instrPos(x)))
							}
						case "append":
							if x.Call.Args[0] == v {
								if _, isSl := v.(*ssa.Slice); isSl {
									bad = append(bad, fmt.Sprintf("a re-slice of it is appended to at %s", p.instrPos(x)))
								}
							}
						case "delete":
							if x.Call.Args[0] == v {
								bad = append(bad, fmt.Sprintf("an entry is deleted at %s", p.instrPos(x)))
							}
						default:
							sc := x.Call.StaticCallee()
							if sc != nil && sc.Origin() != nil {
								sc = sc.Origin() // instantiations of generic functions have no package of their own
							}
							if sc != nil && sc.Pkg != nil {
								name := sc.Pkg.Pkg.Name() + "." + strings.SplitN(sc.Name(), "[", 2)[0]
								if inPlaceAlgos[name] && len(x.Call.Args) > 0 && (x.Call.Args[0] == v || p.origin(x.Call.Args[0]) == v) {
									bad = append(bad, fmt.Sprintf("it is handed to %s at %s", name, p.instrPos(x)))
								}
							}
						}
					case *ssa.MakeInterface:
						// sort.Slice(x any, …)
						if x.Referrers() != nil {
							for _, r2 := range *x.Referrers() {
								if c, ok := r2.(*ssa.Call); ok {
									if sc := c.Call.StaticCallee(); sc != nil && sc.Pkg != nil && inPlaceAlgos[sc.Pkg.Pkg.Name()+"."+sc.Name()] {
										bad = append(bad, fmt.Sprintf("it is handed to %s.%s at %s", sc.Pkg.Pkg.Name(), sc.Name(), p.instrPos(c)))
									}
								}
							}
						}
					}
				}
			}
			follow(m, 0)
		}
		key := funcKey(fn) + ":messages"
		if len(bad) > 0 {
			sort.Strings(bad)
			o.bad("R1", key, p.Pos(fn.Pos()), fmt.Sprintf("a slice or map received from a channel is modified in place: %s — the sender may have handed the same batch to another consumer, which is reading it at the same time", strings.Join(dedupe(bad), ", ")))
		} else {
			o.ok("R1", key, p.Pos(fn.Pos()), fmt.Sprintf("%d slice/map receive(s): what is received is only read", len(msgs)))
		}
	}
	o.ok("R1", "inspected", "-", fmt.Sprintf("%d function(s) that receive slices or maps from channels", n))
}
