package main

import (
	"fmt"
	"go/token"
	"go/types"
	"sort"
	"strings"

	"golang.org/x/tools/go/ssa"
)

// Engine D — lifecycle (DESIGN.md §3 D): D1 goroutine accounting, D2 stoppable loops, D3 no stranding channel
// operation on API paths, D4 shutdown signal atomic with Bind, D5 Bind/Unbind pairing, D6 no start after close.

func init() {
	registerEngine("D", []string{"D1", "D2", "D3", "D4", "D5", "D6", "D7", "D8", "D9"}, runEngineD)
}

// d3Exceptions: blocking channel operations on API paths that are safe for a stated reason (checked elsewhere).
var d3Exceptions = map[string]string{}

// chanField returns the struct field a channel value is loaded from ("" if none).
func chanField(p *Prog, v ssa.Value) string {
	v = p.origin(v)
	if ct, ok := v.(*ssa.ChangeType); ok {
		v = p.origin(ct.X)
	}
	if u, ok := v.(*ssa.UnOp); ok && u.Op == token.MUL {
		if fa, ok := u.X.(*ssa.FieldAddr); ok {
			return fieldKeyAddr(fa)
		}
	}
	return ""
}

// chanIdents returns the identities of a channel value: the struct fields it is loaded from or is also stored in, and
// MakeChan sites, following parameters back to the arguments of static call/go sites.
func chanIdents(p *Prog, v ssa.Value) map[string]bool {
	out := map[string]bool{}
	seen := map[ssa.Value]bool{}
	var walk func(v ssa.Value, d int)
	walk = func(v ssa.Value, d int) {
		if v == nil || seen[v] || d > 12 {
			return
		}
		seen[v] = true
		v = p.origin(v)
		switch x := v.(type) {
		case *ssa.ChangeType:
			walk(x.X, d+1)
		case *ssa.MakeChan:
			out[fmt.Sprintf("make@%s", p.instrPos(x))] = true
			// fields the made channel is stored into
			for _, r := range *x.Referrers() {
				collectStoresOf(p, r, x, out, 0)
			}
		case *ssa.UnOp:
			if x.Op == token.MUL {
				if fa, ok := x.X.(*ssa.FieldAddr); ok {
					out[fieldKeyAddr(fa)] = true
					for _, st := range p.storesToField(fieldOfAddr(fa)) {
						walk(st.Val, d+1)
					}
				}
			}
		case *ssa.Parameter:
			fn := x.Parent()
			idx := -1
			for i, pp := range fn.Params {
				if pp == x {
					idx = i
				}
			}
			for _, site := range p.Locks().sites[fn] {
				args := site.Common().Args
				if idx >= 0 && idx < len(args) {
					walk(args[idx], d+1)
				}
			}
		case *ssa.Phi:
			for _, e := range x.Edges {
				walk(e, d+1)
			}
		case *ssa.Call:
			// an accessor of the repository that hands out a channel it holds (`func (l *lifecycle) closing() <-chan
			// struct{} { return l.done }`): the channel is whatever the accessor returns
			if sc := x.Call.StaticCallee(); sc != nil && p.InUniverse(sc) && sc.Blocks != nil && sc.Signature.Results().Len() == 1 {
				instrsOf(sc, func(in ssa.Instruction) {
					if r, ok := in.(*ssa.Return); ok && len(r.Results) == 1 {
						walk(r.Results[0], d+1)
					}
				})
				return
			}
			// ticker.Ch(), time.After: external sources
			out["call:"+shortCallee(calleeName(&x.Call))] = true
		}
	}
	walk(v, 0)
	return out
}

func collectStoresOf(p *Prog, r ssa.Instruction, v ssa.Value, out map[string]bool, d int) {
	if d > 3 {
		return
	}
	switch x := r.(type) {
	case *ssa.Store:
		if x.Val == v {
			if fa, ok := x.Addr.(*ssa.FieldAddr); ok {
				out[fieldKeyAddr(fa)] = true
			}
			// local cell: follow its loads
			if al, ok := x.Addr.(*ssa.Alloc); ok {
				for _, f := range allNested(al.Parent()) {
					instrsOf(f, func(in ssa.Instruction) {
						if u, ok := in.(*ssa.UnOp); ok && u.Op == token.MUL && cellAddr(u.X) == ssa.Value(al) && u.Referrers() != nil {
							for _, r2 := range *u.Referrers() {
								collectStoresOf(p, r2, u, out, d+1)
							}
						}
					})
				}
			}
		}
	case *ssa.ChangeType:
		if x.Referrers() != nil {
			for _, r2 := range *x.Referrers() {
				collectStoresOf(p, r2, x, out, d+1)
			}
		}
	}
}

func identsOverlap(a, b map[string]bool) bool {
	for k := range a {
		if b[k] {
			return true
		}
	}
	return false
}

// closeSites returns every close(ch) call in the universe with the identities of the closed channel.
type closeSite struct {
	call *ssa.Call
	fn   *ssa.Function
	ids  map[string]bool
}

func closeSites(p *Prog) []closeSite {
	var out []closeSite
	for _, fn := range p.Funcs {
		instrsOf(fn, func(in ssa.Instruction) {
			if c, ok := in.(*ssa.Call); ok && builtinName(&c.Call) == "close" {
				out = append(out, closeSite{c, fn, chanIdents(p, c.Call.Args[0])})
			}
		})
	}
	return out
}

// reachableFuncs returns the universe functions reachable from the roots through calls (not through go statements).
func reachableFuncs(p *Prog, roots []*ssa.Function, followGo bool) map[*ssa.Function]bool {
	out := map[*ssa.Function]bool{}
	var work []*ssa.Function
	for _, r := range roots {
		if r != nil && !out[r] {
			out[r] = true
			work = append(work, r)
		}
	}
	for len(work) > 0 {
		f := work[len(work)-1]
		work = work[:len(work)-1]
		instrsOf(f, func(in ssa.Instruction) {
			if ci, ok := in.(ssa.CallInstruction); ok {
				if _, isGo := ci.(*ssa.Go); isGo && !followGo {
					return
				}
				// the next writer / wrapped reader of the chain is another interceptor, not part of this one
				if ci.Common().IsInvoke() && isChainIface(p, ci.Common().Value.Type()) {
					return
				}
				for _, c := range p.Callees(ci) {
					if p.InUniverse(c) && !out[c] {
						out[c] = true
						work = append(work, c)
					}
				}
			}
			if mc, ok := in.(*ssa.MakeClosure); ok {
				// literals created here and called synchronously (Range callbacks …)
				lf := mc.Fn.(*ssa.Function)
				if _, isSync := p.Locks().syncLit[lf]; isSync && !out[lf] {
					out[lf] = true
					work = append(work, lf)
				}
			}
		})
	}
	return out
}

// ownerTypeOfField returns the named struct type that declares the field key "pkg.Type.field".
func ownerOfFieldKey(fk string) string {
	if i := strings.LastIndex(fk, "."); i >= 0 {
		return fk[:i]
	}
	return fk
}

func (p *Prog) namedByKey(tk string) *types.Named {
	for sp := range p.Universe {
		for _, m := range sp.Members {
			if tn, ok := m.(*ssa.Type); ok {
				if n, ok := tn.Type().(*types.Named); ok && typeKey(n) == tk {
					return n
				}
			}
		}
	}
	return nil
}

// apiRoots: per-packet closures, declared lifecycle methods of interceptor types, and exported methods of exported
// types that implement one of the chain / estimator interfaces.
func apiRoots(p *Prog) []*ssa.Function {
	var roots []*ssa.Function
	cl, _ := p.PktClosures()
	for _, c := range cl {
		roots = append(roots, c.Fn)
	}
	for _, t := range p.InterceptorTypes() {
		for i := 0; i < t.NumMethods(); i++ {
			if f := p.SSA.FuncValue(t.Method(i)); f != nil && isExportedName(f.Name()) && p.InUniverse(f) {
				roots = append(roots, f)
			}
		}
	}
	for _, f := range p.Funcs {
		if f.Parent() != nil || !isExportedName(f.Name()) || f.Signature.Recv() == nil {
			continue
		}
		n := namedOf(f.Signature.Recv().Type())
		if n == nil || !isExportedName(n.Obj().Name()) {
			continue
		}
		roots = append(roots, f)
	}
	return roots
}

func runEngineD(p *Prog, o *obls) {
	la := p.Locks()
	closes := closeSites(p)
	// lifecycle channel identities: channels closed by some Close method (or a function it reaches)
	// only closes executed by (functions reachable from) a Close method count: a channel closed elsewhere (a
	// "started" test hook closed by the loop itself) is not a shutdown signal
	var closeMethods []*ssa.Function
	for _, f := range p.Funcs {
		if f.Name() == "Close" && f.Signature.Recv() != nil {
			closeMethods = append(closeMethods, f)
		}
	}
	inClose := reachableFuncs(p, closeMethods, false)
	lifecycle := map[string]bool{}
	var lifeCloses []closeSite
	for _, cs := range closes {
		if !inClose[cs.fn] {
			continue
		}
		lifeCloses = append(lifeCloses, cs)
		for id := range cs.ids {
			lifecycle[id] = true
		}
	}
	closes = lifeCloses
	isLifecycle := func(ids map[string]bool) bool { return identsOverlap(ids, lifecycle) }

	type goSite struct {
		g      *ssa.Go
		fn     *ssa.Function
		callee *ssa.Function
	}
	var gos []goSite
	for _, fn := range p.Funcs {
		instrsOf(fn, func(in ssa.Instruction) {
			if g, ok := in.(*ssa.Go); ok {
				cs := p.Callees(g)
				var c *ssa.Function
				if len(cs) > 0 {
					c = cs[0]
				}
				gos = append(gos, goSite{g, fn, c})
			}
		})
	}

	// ---- D1 ----
	// one obligation per goroutine target (the site is part of the witness, not of the key: moving the go statement
	// into a helper does not change what is started)
	type d1res struct {
		pos  string
		bad  []string
		good []string
	}
	d1 := map[string]*d1res{}
	var d1order []string
	for _, gs := range gos {
		key := "go " + calleeLabel(gs.g, gs.callee)
		if lbl := calleeLabel(gs.g, gs.callee); lbl == "literal" || lbl == "<func value>" || strings.HasPrefix(lbl, "<dynamic") {
			key += "@" + funcKey(gs.fn)
		}
		pos := p.instrPos(gs.g)
		r := d1[key]
		if r == nil {
			r = &d1res{pos: pos}
			d1[key] = r
			d1order = append(d1order, key)
		}
		site := fmt.Sprintf("[started at %s in %s] ", pos, funcKey(gs.fn))
		// (a) a WaitGroup.Add that dominates the go statement — in the same function, or at every call of the helper
		// that contains the go statement
		var wgField string
		addDominating := func(at ssa.Instruction) string {
			f := ""
			instrsOf(at.Parent(), func(in ssa.Instruction) {
				if c, ok := in.(*ssa.Call); ok && isCallTo(&c.Call, "(*sync.WaitGroup).Add") && instrDominates(c, at) {
					if fa, ok := c.Call.Args[0].(*ssa.FieldAddr); ok {
						f = fieldKeyAddr(fa)
					}
				}
			})
			return f
		}
		wgField = addDominating(gs.g)
		if wgField == "" {
			var fields []string
			if p.allCallersSatisfy(gs.fn, func(s ssa.CallInstruction) bool {
				if f := addDominating(s); f != "" {
					fields = append(fields, f)
					return true
				}
				return false
			}, ipDepth) && len(dedupe(fields)) == 1 {
				wgField = fields[0]
			}
		}
		if wgField == "" {
			r.bad = append(r.bad, site+"goroutine is started without a dominating WaitGroup.Add: nothing can wait for it, so Close can return while it still runs (and writes)")
			continue
		}
		// (b) the goroutine's entry defers Done on the same WaitGroup
		done := false
		if gs.callee != nil && gs.callee.Blocks != nil {
			for _, in := range gs.callee.Blocks[0].Instrs {
				if d, ok := in.(*ssa.Defer); ok && isCallTo(&d.Call, "(*sync.WaitGroup).Done") {
					if fa, ok := d.Call.Args[0].(*ssa.FieldAddr); ok && fieldKeyAddr(fa) == wgField {
						done = true
					}
				}
			}
		}
		if !done {
			r.bad = append(r.bad, site+fmt.Sprintf("WaitGroup %s is incremented but the goroutine's entry does not `defer Done()` on it: Close waits forever or not at all", wgField))
			continue
		}
		// (c) the owner's Close waits on it on every path
		owner := p.namedByKey(ownerOfFieldKey(wgField))
		var closeFn *ssa.Function
		if owner != nil {
			closeFn = p.DeclaredMethod(owner, "Close")
		}
		if closeFn == nil && owner != nil {
			// the WaitGroup lives in a helper object (a `lifecycle` the interceptor holds): the Close of every type
			// holding such an object has to wait
			var holders []*ssa.Function
			for _, h := range p.holdersOf(owner) {
				if f := p.DeclaredMethod(h, "Close"); f != nil {
					holders = append(holders, f)
				}
			}
			if len(holders) > 0 {
				var fails []string
				for _, f := range holders {
					if !waitsOnAllPathsD(p, f, wgField, 3) {
						fails = append(fails, funcKey(f))
					}
				}
				if len(fails) > 0 {
					r.bad = append(r.bad, site+fmt.Sprintf("%s does not reach %s.Wait() on every path", strings.Join(fails, ", "), wgField))
				} else {
					r.good = append(r.good, fmt.Sprintf("Add on %s dominates the go statement, the entry defers Done, Close of the %d type(s) holding the %s waits on every path", wgField, len(holders), owner.Obj().Name()))
				}
				continue
			}
		}
		if closeFn == nil {
			r.bad = append(r.bad, site+fmt.Sprintf("the type owning %s has no Close method that could wait for the goroutine", wgField))
			continue
		}
		if !waitsOnAllPathsD(p, closeFn, wgField, 3) {
			r.bad = append(r.bad, site+fmt.Sprintf("%s does not reach %s.Wait() on every path", funcKey(closeFn), wgField))
			continue
		}
		r.good = append(r.good, fmt.Sprintf("Add on %s dominates the go statement, the entry defers Done, %s waits on every path", wgField, funcKey(closeFn)))
	}
	for _, key := range d1order {
		r := d1[key]
		if len(r.bad) > 0 {
			o.bad("D1", key, r.pos, strings.Join(r.bad, "; "))
		} else {
			o.ok("D1", key, r.pos, strings.Join(dedupe(r.good), "; "))
		}
	}

	// ---- D2 ----
	entrySet := map[*ssa.Function]bool{}
	for _, gs := range gos {
		if gs.callee != nil {
			entrySet[gs.callee] = true
		}
	}
	var entries []*ssa.Function
	for f := range entrySet {
		entries = append(entries, f)
	}
	sort.Slice(entries, func(i, j int) bool { return funcKey(entries[i]) < funcKey(entries[j]) })
	for _, e := range entries {
		for f := range reachableFuncs(p, []*ssa.Function{e}, false) {
			d2Loops(p, o, f, e, isLifecycle)
		}
	}

	// ---- D3 ----
	apiReach := reachableFuncs(p, apiRoots(p), false)
	var apiFns []*ssa.Function
	for f := range apiReach {
		if !entrySet[f] {
			apiFns = append(apiFns, f)
		}
	}
	sort.Slice(apiFns, func(i, j int) bool { return funcKey(apiFns[i]) < funcKey(apiFns[j]) })
	for _, f := range apiFns {
		d3Channel(p, o, f, isLifecycle)
	}

	// ---- D4 / D6 ----
	for _, gs := range gos {
		top := gs.fn
		for top.Parent() != nil {
			top = top.Parent()
		}
		recv := top.Signature.Recv()
		if recv == nil {
			continue
		}
		isBind := false
		for _, m := range bindMethods {
			if top.Name() == m {
				isBind = true
			}
		}
		if !isBind || gs.fn != top {
			continue // goroutines started by constructors cannot race with Close of the object; per-packet ones are D1's
		}
		tk := typeKey(recv.Type())
		key := fmt.Sprintf("%s:go %s", funcKey(gs.fn), calleeLabel(gs.g, gs.callee))
		pos := p.instrPos(gs.g)
		// lifecycle channels of this type, and where they are closed
		var myCloses []closeSite
		for _, cs := range closes {
			for id := range cs.ids {
				if strings.HasPrefix(id, tk+".") {
					myCloses = append(myCloses, cs)
					break
				}
			}
		}
		if len(myCloses) == 0 {
			o.bad("D4", key, pos, "a Bind method starts a goroutine but the type has no lifecycle channel that Close closes: the goroutine cannot be told to stop")
			continue
		}
		held := la.info[gs.fn].before[gs.g]
		var common []string
		for l, m := range held {
			if m == 2 && strings.HasPrefix(l, tk+".") {
				common = append(common, l)
			}
		}
		sort.Strings(common)
		var problems []string
		if len(common) == 0 {
			problems = append(problems, "the go statement (and its WaitGroup.Add) is not executed under a mutex of the object")
		}
		for _, cs := range myCloses {
			ch := la.info[cs.fn].before[cs.call]
			okc := false
			for _, l := range common {
				if ch[l] == 2 {
					okc = true
				}
			}
			if !okc {
				problems = append(problems, fmt.Sprintf("close of the lifecycle channel at %s (in %s) is not executed under the mutex that guards the start sequence (%s; held there: %s): WaitGroup.Add can race Wait and a loop can start after Close returned",
					p.instrPos(cs.call), funcKey(cs.fn), strings.Join(common, ","), ch))
			}
		}
		if len(problems) > 0 {
			o.bad("D4", key, pos, strings.Join(problems, "; "))
		} else {
			o.ok("D4", key, pos, fmt.Sprintf("start sequence and every close of the lifecycle channel run under %s", strings.Join(common, ",")))
		}
		// D6: dominated by the not-closed branch of a closed test
		closedTest := false
		for _, f := range dominatingFactsInstr(gs.g) {
			f = normFact(f)
			if c, ok := f.cond.(*ssa.Call); ok && !f.truth {
				if sc := c.Call.StaticCallee(); sc != nil && isClosedPredicate(p, sc, isLifecycle) {
					closedTest = true
				}
			}
		}
		if closedTest {
			o.ok("D6", key, pos, "the goroutine is only started on the not-closed branch of a test of the lifecycle channel")
		} else {
			o.bad("D6", key, pos, "the goroutine is started without first testing that the interceptor is not closed: a Bind after Close starts a loop nobody will stop or wait for")
		}
	}

	// ---- D5 ----
	d5Pairing(p, o)

	// ---- D8 ----
	d8ClosedTests(p, o, isLifecycle)
	d9CloseMarks(p, o, isLifecycle, closes)
}

func calleeLabel(g *ssa.Go, callee *ssa.Function) string {
	if g.Call.StaticCallee() == nil {
		if _, isMC := g.Call.Value.(*ssa.MakeClosure); !isMC && !g.Call.IsInvoke() {
			// a function value: name it by the field it is loaded from
			if u, ok := g.Call.Value.(*ssa.UnOp); ok {
				if fa, ok := u.X.(*ssa.FieldAddr); ok {
					return "<func value " + fieldKeyAddr(fa) + ">"
				}
			}
			return "<func value>"
		}
	}
	if callee == nil {
		return "<dynamic:" + valueString(g.Call.Value) + ">"
	}
	if callee.Parent() != nil {
		return "literal"
	}
	return funcKey(callee)
}

// waitsOnAllPaths: the function defers W.Wait(), or calls it in a block that every return passes through.
func waitsOnAllPaths(fn *ssa.Function, wgField string) bool {
	return waitsOnAllPathsD(nil, fn, wgField, 0)
}

// holdersOf: the named struct types of the universe with a field of type T or *T.
func (p *Prog) holdersOf(t *types.Named) []*types.Named {
	var out []*types.Named
	for sp := range p.Universe {
		for _, m := range sp.Members {
			tn, ok := m.(*ssa.Type)
			if !ok {
				continue
			}
			n, ok := tn.Type().(*types.Named)
			if !ok {
				continue
			}
			st, ok := n.Underlying().(*types.Struct)
			if !ok {
				continue
			}
			for i := 0; i < st.NumFields(); i++ {
				if fn := namedOf(st.Field(i).Type()); fn != nil && fn.Obj() == t.Obj() {
					out = append(out, n)
					break
				}
			}
		}
	}
	sort.Slice(out, func(i, j int) bool { return typeKey(out[i]) < typeKey(out[j]) })
	return out
}

// waitsOnAllPathsD: every return of fn is preceded by Wait on the WaitGroup field — directly, deferred in the entry
// block, or (depth > 0, p != nil) through a helper of the repository that itself waits on every path.
func waitsOnAllPathsD(p *Prog, fn *ssa.Function, wgField string, depth int) bool {
	ok := false
	var calls []*ssa.Call
	if fn == nil || fn.Blocks == nil {
		return false
	}
	helperWaits := func(cc *ssa.CallCommon) bool {
		if p == nil || depth <= 0 {
			return false
		}
		sc := cc.StaticCallee()
		return sc != nil && p.InUniverse(sc) && waitsOnAllPathsD(p, sc, wgField, depth-1)
	}
	instrsOf(fn, func(in ssa.Instruction) {
		switch x := in.(type) {
		case *ssa.Defer:
			if isCallTo(&x.Call, "(*sync.WaitGroup).Wait") {
				if fa, isFA := x.Call.Args[0].(*ssa.FieldAddr); isFA && fieldKeyAddr(fa) == wgField && x.Block() == fn.Blocks[0] {
					ok = true
				}
			} else if x.Block() == fn.Blocks[0] && helperWaits(&x.Call) {
				ok = true
			}
		case *ssa.Call:
			if isCallTo(&x.Call, "(*sync.WaitGroup).Wait") {
				if fa, isFA := x.Call.Args[0].(*ssa.FieldAddr); isFA && fieldKeyAddr(fa) == wgField {
					calls = append(calls, x)
				}
			} else if helperWaits(&x.Call) {
				calls = append(calls, x)
			}
		}
	})
	if ok {
		return true
	}
	for _, c := range calls {
		all := true
		for _, b := range fn.Blocks {
			if _, isRet := b.Instrs[len(b.Instrs)-1].(*ssa.Return); isRet && b != fn.Recover {
				if !(c.Block() == b || c.Block().Dominates(b)) {
					all = false
				}
			}
		}
		if all {
			return true
		}
	}
	return false
}

// isClosedPredicate: a function returning bool whose body is a non-blocking select on a lifecycle channel.
func isClosedPredicate(p *Prog, fn *ssa.Function, isLifecycle func(map[string]bool) bool) bool {
	return isClosedPredicateD(p, fn, isLifecycle, 2)
}

func isClosedPredicateD(p *Prog, fn *ssa.Function, isLifecycle func(map[string]bool) bool, depth int) bool {
	if fn.Blocks == nil || fn.Signature.Results().Len() != 1 {
		return false
	}
	found := false
	// a predicate that delegates to a shared helper (isClosed() { return isSignalled(r.close) }): the helper polls
	// the channel it is given, and this call gives it a lifecycle channel
	if depth > 0 {
		instrsOf(fn, func(in ssa.Instruction) {
			c, ok := in.(*ssa.Call)
			if !ok {
				return
			}
			sc := c.Call.StaticCallee()
			if sc == nil || !p.InUniverse(sc) || sc.Blocks == nil || sc.Signature.Results().Len() != 1 {
				return
			}
			polls := -1
			instrsOf(sc, func(in2 ssa.Instruction) {
				if s, ok := in2.(*ssa.Select); ok && !s.Blocking {
					for _, st := range s.States {
						if par, ok := p.origin(st.Chan).(*ssa.Parameter); ok && st.Dir == types.RecvOnly {
							for i, q := range sc.Params {
								if q == par {
									polls = i
								}
							}
						}
					}
				}
			})
			if polls >= 0 && polls < len(c.Call.Args) && isLifecycle(chanIdents(p, c.Call.Args[polls])) {
				for _, b := range fn.Blocks {
					if ret, ok := b.Instrs[len(b.Instrs)-1].(*ssa.Return); ok && len(ret.Results) == 1 && p.origin(ret.Results[0]) == ssa.Value(c) {
						found = true
					}
				}
			}
		})
		if found {
			return true
		}
	}
	instrsOf(fn, func(in ssa.Instruction) {
		if s, ok := in.(*ssa.Select); ok && !s.Blocking {
			for _, st := range s.States {
				if st.Dir == types.RecvOnly && isLifecycle(chanIdents(p, st.Chan)) {
					found = true
				}
			}
		}
	})
	return found
}

// loopBlocks returns the natural loops of a function as (header, blocks) using back edges to dominators.
func naturalLoops(fn *ssa.Function) map[*ssa.BasicBlock]map[*ssa.BasicBlock]bool {
	loops := map[*ssa.BasicBlock]map[*ssa.BasicBlock]bool{}
	for _, b := range fn.Blocks {
		for _, s := range b.Succs {
			if s == b || s.Dominates(b) {
				// back edge b → s
				body := loops[s]
				if body == nil {
					body = map[*ssa.BasicBlock]bool{s: true}
					loops[s] = body
				}
				var stack []*ssa.BasicBlock
				if !body[b] {
					body[b] = true
					stack = append(stack, b)
				}
				for len(stack) > 0 {
					x := stack[len(stack)-1]
					stack = stack[:len(stack)-1]
					for _, pr := range x.Preds {
						if !body[pr] {
							body[pr] = true
							stack = append(stack, pr)
						}
					}
				}
			}
		}
	}
	return loops
}

// d2Loops: every loop that blocks on a channel can be stopped by the lifecycle signal.
func d2Loops(p *Prog, o *obls, fn *ssa.Function, entry *ssa.Function, isLifecycle func(map[string]bool) bool) {
	loops := naturalLoops(fn)
	var headers []*ssa.BasicBlock
	for h := range loops {
		headers = append(headers, h)
	}
	sort.Slice(headers, func(i, j int) bool { return headers[i].Index < headers[j].Index })
	for _, h := range headers {
		body := loops[h]
		var blocking []ssa.Instruction
		stoppable := false
		why := ""
		for b := range body {
			for _, in := range b.Instrs {
				switch x := in.(type) {
				case *ssa.Select:
					if !x.Blocking {
						continue
					}
					blocking = append(blocking, x)
					for i, st := range x.States {
						if st.Dir == types.RecvOnly && isLifecycle(chanIdents(p, st.Chan)) {
							// the branch taken for this state must leave the loop
							if selectStateLeaves(x, i, body) {
								stoppable = true
								why = "select case on a lifecycle channel leaves the loop"
							}
						}
					}
				case *ssa.UnOp:
					if x.Op == token.ARROW {
						blocking = append(blocking, x)
					}
				case *ssa.Send:
					blocking = append(blocking, x)
				case *ssa.Next:
					// for range over a channel
					if r, ok := x.Iter.(*ssa.Range); ok {
						if _, isChan := r.X.Type().Underlying().(*types.Chan); isChan {
							blocking = append(blocking, x)
						}
					}
				}
			}
		}
		// `for v := range ch`: go/ssa emits a receive with comma-ok in the header and leaves when !ok
		for b := range body {
			for _, in := range b.Instrs {
				if u, ok := in.(*ssa.UnOp); ok && u.Op == token.ARROW && u.CommaOk {
					ids := chanIdents(p, u.X)
					if isLifecycle(ids) {
						// the !ok branch leaves the loop
						for _, r := range *u.Referrers() {
							if ex, ok := r.(*ssa.Extract); ok && ex.Index == 1 {
								for _, r2 := range *ex.Referrers() {
									if iff, ok := r2.(*ssa.If); ok && !body[iff.Block().Succs[1]] {
										stoppable = true
										why = "range over a channel that Close closes"
									}
								}
							}
						}
					}
				}
			}
		}
		if len(blocking) == 0 {
			continue
		}
		key := fmt.Sprintf("%s:loop@%s", funcKey(fn), loopLabel(p, h))
		pos := p.instrPos(blocking[0])
		// D7: a service loop — one that waits in a select with a lifecycle case and other cases — is left only on the
		// lifecycle signal. If it can also be left elsewhere (an early return on a failed write), the goroutine is gone
		// while the interceptor is still open: its producers block on their hand-off until Close, and its periodic
		// work stops.
		if stoppable {
			var exits []string
			nExit := 0
			for _, in := range blocking {
				sel, ok := in.(*ssa.Select)
				if !ok || len(sel.States) < 2 {
					continue
				}
				lifeTargets := map[*ssa.BasicBlock]bool{}
				for i, st := range sel.States {
					if st.Dir == types.RecvOnly && isLifecycle(chanIdents(p, st.Chan)) {
						if t := selectStateTarget(sel, i); t != nil {
							lifeTargets[t] = true
						}
					}
				}
				if len(lifeTargets) == 0 {
					continue
				}
				// only the loop this select directly serves: the innermost loop containing it
				inner := true
				for h2, b2 := range loops {
					if h2 != h && b2[sel.Block()] && len(b2) < len(body) {
						inner = false
					}
				}
				if !inner {
					continue
				}
				for b := range body {
					for _, sc := range b.Succs {
						if body[sc] {
							continue
						}
						if _, isPanic := sc.Instrs[len(sc.Instrs)-1].(*ssa.Panic); isPanic {
							continue // the compiler's "select matched no case" block, or an explicit panic: not a quiet exit
						}
						nExit++
						// the exit is on the lifecycle signal if it lies in the lifecycle case, or leads (through the
						// rest of the select's dispatch chain, which is outside the loop) only to it
						var onLife func(x *ssa.BasicBlock, d int) bool
						onLife = func(x *ssa.BasicBlock, d int) bool {
							for t := range lifeTargets {
								if t == x || t.Dominates(x) {
									return true
								}
							}
							if body[x] || d > 6 || len(x.Succs) == 0 {
								return false
							}
							for _, y := range x.Succs {
								if _, isPanic := y.Instrs[len(y.Instrs)-1].(*ssa.Panic); isPanic {
									continue
								}
								if !onLife(y, d+1) {
									return false
								}
							}
							return true
						}
						inLife := false
						for t := range lifeTargets {
							if t == b || t.Dominates(b) {
								inLife = true
							}
						}
						if !inLife && !onLife(sc, 0) {
							pos := sc.Instrs[len(sc.Instrs)-1].Pos()
							if !pos.IsValid() {
								pos = b.Instrs[len(b.Instrs)-1].Pos()
							}
							exits = append(exits, p.Pos(pos))
						}
					}
				}
			}
			if nExit > 0 {
				k7 := key
				if len(exits) > 0 {
					sort.Strings(exits)
					o.bad("D7", k7, pos, fmt.Sprintf("the service loop of goroutine %s can be left at %s, not on the lifecycle signal: after that nobody serves the loop's channels while the interceptor is still open (producers block until Close, periodic work stops)", funcKey(entry), strings.Join(dedupe(exits), ", ")))
				} else {
					o.ok("D7", k7, pos, fmt.Sprintf("the service loop is left only through its lifecycle case (%d exit edge(s))", nExit))
				}
			}
		}
		if stoppable {
			o.ok("D2", key, pos, fmt.Sprintf("blocking loop in goroutine %s: %s", funcKey(entry), why))
		} else {
			o.bad("D2", key, pos, fmt.Sprintf("loop in goroutine %s blocks on a channel (%s) but has no case on a channel that Close closes (or the case does not leave the loop): the goroutine cannot be stopped", funcKey(entry), instrBrief(blocking[0])))
		}
	}
}

// loopLabel names a loop stably: ordinal of the loop header among the function's loop headers.
func loopLabel(p *Prog, h *ssa.BasicBlock) string {
	fn := h.Parent()
	loops := naturalLoops(fn)
	var hs []int
	for x := range loops {
		hs = append(hs, x.Index)
	}
	sort.Ints(hs)
	for i, x := range hs {
		if x == h.Index {
			return fmt.Sprintf("#%d", i+1)
		}
	}
	return "#?"
}

// selectStateLeaves: the control-flow successor chosen for select state i leaves the loop body (reaches a block
// outside body without returning to the header first). go/ssa lowers a select to a chain of `index == k` tests.
// selectStateTarget: the block control reaches when select state i was chosen.
func selectStateTarget(sel *ssa.Select, i int) *ssa.BasicBlock {
	if sel.Referrers() == nil {
		return nil
	}
	for _, r := range *sel.Referrers() {
		ex, ok := r.(*ssa.Extract)
		if !ok || ex.Index != 0 || ex.Referrers() == nil {
			continue
		}
		for _, r2 := range *ex.Referrers() {
			bo, ok := r2.(*ssa.BinOp)
			if !ok || bo.Op != token.EQL || !isConstInt(bo.Y, int64(i)) || bo.Referrers() == nil {
				continue
			}
			for _, r3 := range *bo.Referrers() {
				if iff, ok := r3.(*ssa.If); ok {
					return iff.Block().Succs[0]
				}
			}
		}
	}
	return nil
}

func selectStateLeaves(sel *ssa.Select, i int, body map[*ssa.BasicBlock]bool) bool {
	// find the If testing `extract #0 == i`
	var idx *ssa.Extract
	for _, r := range *sel.Referrers() {
		if ex, ok := r.(*ssa.Extract); ok && ex.Index == 0 {
			idx = ex
		}
	}
	if idx == nil {
		return false
	}
	for _, r := range *idx.Referrers() {
		bo, ok := r.(*ssa.BinOp)
		if !ok || bo.Op != token.EQL || !isConstInt(bo.Y, int64(i)) {
			continue
		}
		for _, r2 := range *bo.Referrers() {
			iff, ok := r2.(*ssa.If)
			if !ok {
				continue
			}
			target := iff.Block().Succs[0]
			// does every path from target leave the loop before reaching the header again?
			seen := map[*ssa.BasicBlock]bool{}
			var leaves func(b *ssa.BasicBlock) bool
			leaves = func(b *ssa.BasicBlock) bool {
				if !body[b] {
					return true
				}
				if seen[b] {
					return true
				}
				seen[b] = true
				if len(b.Succs) == 0 {
					return true // return / panic inside
				}
				for _, s := range b.Succs {
					if s == sel.Block() || (body[s] && s.Dominates(sel.Block())) {
						return false // back to the loop
					}
					if !leaves(s) {
						return false
					}
				}
				return true
			}
			if leaves(target) {
				return true
			}
		}
	}
	return false
}

// d3Channel: channel operations on internal channels in API-reachable functions can always complete.
func d3Channel(p *Prog, o *obls, fn *ssa.Function, isLifecycle func(map[string]bool) bool) {
	fk := funcKey(fn)
	internalChan := func(v ssa.Value) (string, bool) {
		ids := chanIdents(p, v)
		var fields []string
		for id := range ids {
			if !strings.HasPrefix(id, "make@") && !strings.HasPrefix(id, "call:") {
				fields = append(fields, id)
			}
		}
		sort.Strings(fields)
		if len(fields) == 0 {
			return "", false
		}
		return fields[0], true
	}
	instrsOf(fn, func(in ssa.Instruction) {
		switch x := in.(type) {
		case *ssa.Send:
			if f, ok := internalChan(x.Chan); ok {
				key := fmt.Sprintf("%s:send %s", fk, f)
				if why, ex := d3Exceptions[fk]; ex {
					o.note("D3", key, p.instrPos(x), "accepted: "+why)
					return
				}
				if l, n := closeLockProtocol(p, x, f); l != "" {
					o.ok("D3", key, p.instrPos(x), fmt.Sprintf("the send runs with %s read-held and the %d close site(s) of the channel run with it write-held: the channel cannot be closed under the sender, and its consumer is kept until then (closed-flag protocol, rules H3 and C5)", l, n))
					return
				}
				o.bad("D3", key, p.instrPos(x), "blocking send on an internal channel with no alternative (no select case on the close channel, no default): the caller is stranded when the consumer goroutine is not running (before BindRTCPWriter, after Close) or the buffer is full")
			}
		case *ssa.UnOp:
			if x.Op == token.ARROW {
				if f, ok := internalChan(x.X); ok {
					key := fmt.Sprintf("%s:recv %s", fk, f)
					o.bad("D3", key, p.instrPos(x), "blocking receive on an internal channel with no alternative on an API path")
				}
			}
		case *ssa.Select:
			hasInternal := ""
			hasLife := false
			for _, st := range x.States {
				ids := chanIdents(p, st.Chan)
				if isLifecycle(ids) && st.Dir == types.RecvOnly {
					hasLife = true
				} else if f, ok := internalChan(st.Chan); ok {
					hasInternal = f
				}
			}
			if hasInternal == "" {
				return
			}
			dir := "select"
			key := fmt.Sprintf("%s:%s %s", fk, dir, hasInternal)
			if !x.Blocking {
				o.ok("D3", key, p.instrPos(x), "non-blocking select (default case)")
			} else if hasLife {
				o.ok("D3", key, p.instrPos(x), "select has a case on a channel that Close closes")
			} else {
				o.bad("D3", key, p.instrPos(x), "blocking select on an internal channel without a case on the close channel or a default")
			}
		}
	})
}

// ---- D5 -----------------------------------------------------------------------------------------------------------

type containerOp struct {
	field  string
	fn     *ssa.Function
	at     ssa.Instruction
	keyArg int // index of the key among the call's arguments (calls only; 0 = the default position 1)
}

// wrapInfo describes a method of a repository container type (a registry struct around a map: put/remove/…): what it
// does to a container held in a field of its receiver.
type wrapInfo struct {
	inserts, deletes bool
	keyParam         int    // parameter index of the inserted key (0 if not a parameter)
	inner            string // field key of the inner container
	innerType        types.Type
}

// wrapperMethods: methods (generic bodies included) that insert into / delete from a container field of their receiver.
func (p *Prog) wrapperMethods() map[*ssa.Function]wrapInfo {
	if p.wrapCache != nil {
		return p.wrapCache
	}
	out := map[*ssa.Function]wrapInfo{}
	for _, fn := range p.Funcs {
		if fn.Signature.Recv() == nil || len(fn.Params) == 0 || fn.Parent() != nil {
			continue
		}
		recv := ssa.Value(fn.Params[0])
		ofRecv := func(v ssa.Value) (string, types.Type) {
			v0 := v
			for i := 0; i < 5; i++ {
				switch x := v0.(type) {
				case *ssa.FieldAddr:
					if p.origin(x.X) == recv {
						if fv := fieldOfAddr(x); fv != nil {
							return fieldKeyAddr(x), fv.Type()
						}
					}
					return "", nil
				case *ssa.UnOp:
					if x.Op == token.MUL {
						v0 = x.X
						continue
					}
				}
				break
			}
			return "", nil
		}
		wi := wrapInfo{}
		instrsOf(fn, func(in ssa.Instruction) {
			switch x := in.(type) {
			case *ssa.MapUpdate:
				if k, t := ofRecv(x.Map); k != "" {
					wi.inserts, wi.inner, wi.innerType = true, k, t
					if par, ok := p.origin(x.Key).(*ssa.Parameter); ok {
						for i, q := range fn.Params {
							if q == par {
								wi.keyParam = i
							}
						}
					}
				}
			case *ssa.Call:
				switch calleeName(&x.Call) {
				case "builtin delete", "builtin clear", "(*sync.Map).Delete", "(*sync.Map).LoadAndDelete", "(*sync.Map).Clear":
					if k, t := ofRecv(x.Call.Args[0]); k != "" {
						wi.deletes, wi.inner, wi.innerType = true, k, t
					}
				case "(*sync.Map).Store", "(*sync.Map).LoadOrStore", "(*sync.Map).Swap":
					if k, t := ofRecv(x.Call.Args[0]); k != "" {
						wi.inserts, wi.inner, wi.innerType = true, k, t
						if par, ok := p.origin(stripIface(x.Call.Args[1])).(*ssa.Parameter); ok {
							for i, q := range fn.Params {
								if q == par {
									wi.keyParam = i
								}
							}
						}
					}
				}
			case *ssa.Store:
				// the inner map replaced by a fresh one empties the registry
				if fa, ok := x.Addr.(*ssa.FieldAddr); ok && p.origin(fa.X) == recv {
					if _, isMap := deref(fa.Type()).Underlying().(*types.Map); isMap {
						if _, isMake := p.origin(x.Val).(*ssa.MakeMap); isMake && !wi.inserts {
							// (lazy creation in an insert method is not a removal)
							wi.deletes, wi.inner = true, fieldKeyAddr(fa)
							if fv := fieldOfAddr(fa); fv != nil {
								wi.innerType = fv.Type()
							}
						}
					}
				}
			}
		})
		if wi.inserts {
			wi.deletes = false
		}
		if wi.inserts || wi.deletes {
			out[fn] = wi
		}
	}
	p.wrapCache = out
	return out
}

// wrapperCall: the call invokes a wrapper method on a container object held in a field (by value or by pointer) of
// another object; returns that outer field's key.
func (p *Prog) wrapperCall(c *ssa.Call) (string, wrapInfo, bool) {
	sc := c.Call.StaticCallee()
	if sc == nil || len(c.Call.Args) == 0 {
		return "", wrapInfo{}, false
	}
	if o := sc.Origin(); o != nil && o != sc {
		sc = o
	}
	wi, ok := p.wrapperMethods()[sc]
	if !ok {
		return "", wrapInfo{}, false
	}
	outer := containerKey(p, c.Call.Args[0])
	if outer == "" || outer == wi.inner {
		return "", wrapInfo{}, false
	}
	// a container that was a plain field of the owner on the confirmed tree and is now wrapped keeps its old key
	if old := p.wrappedBaselineField(ownerOfFieldKey(outer), wi.innerType); old != "" {
		outer = ownerOfFieldKey(outer) + "." + old
	}
	return outer, wi, true
}

func containerOps(p *Prog) (ins, del []containerOp) {
	for _, fn := range p.Funcs {
		instrsOf(fn, func(in ssa.Instruction) {
			switch x := in.(type) {
			case *ssa.MapUpdate:
				if f := containerKey(p, x.Map); f != "" {
					ins = append(ins, containerOp{field: f, fn: fn, at: x})
				}
			case *ssa.Call:
				if outer, wi, ok := p.wrapperCall(x); ok {
					if wi.inserts {
						ins = append(ins, containerOp{field: outer, fn: fn, at: x, keyArg: wi.keyParam})
					} else {
						del = append(del, containerOp{field: outer, fn: fn, at: x})
					}
					return
				}
				switch calleeName(&x.Call) {
				case "(*sync.Map).Store", "(*sync.Map).LoadOrStore", "(*sync.Map).Swap":
					if f := containerKey(p, x.Call.Args[0]); f != "" {
						ins = append(ins, containerOp{field: f, fn: fn, at: x})
					}
				case "(*sync.Map).Delete", "(*sync.Map).LoadAndDelete", "(*sync.Map).Clear":
					if f := containerKey(p, x.Call.Args[0]); f != "" {
						del = append(del, containerOp{field: f, fn: fn, at: x})
					}
				case "builtin delete", "builtin clear":
					if f := containerKey(p, x.Call.Args[0]); f != "" {
						del = append(del, containerOp{field: f, fn: fn, at: x})
					}
				}
			case *ssa.Store:
				// re-assignment of the container field with a fresh map empties it
				if fa, ok := x.Addr.(*ssa.FieldAddr); ok {
					if _, isMap := deref(fa.Type()).Underlying().(*types.Map); isMap && sharedBase(p, fn, fa.X) {
						del = append(del, containerOp{field: fieldKeyAddr(fa), fn: fn, at: x})
					}
				}
			}
		})
	}
	return
}

// d5Pairing: per-stream containers filled on Bind*Stream are emptied on the matching Unbind*Stream.
func d5Pairing(p *Prog, o *obls) {
	ins, del := containerOps(p)
	for _, t := range p.InterceptorTypes() {
		tk := typeKey(t)
		if tk == "interceptor.Chain" || tk == "interceptor.NoOp" {
			continue
		}
		for _, dir := range []string{"Local", "Remote"} {
			bind := p.DeclaredMethod(t, "Bind"+dir+"Stream")
			if bind == nil || bind.Blocks == nil {
				continue
			}
			reachB := reachableFuncs(p, append([]*ssa.Function{bind}, bind.AnonFuncs...), false)
			// exclude the per-packet closures: insertions per packet are engine E's business
			cl, _ := p.PktClosures()
			for _, c := range cl {
				if c.Fn.Parent() == bind {
					delete(reachB, c.Fn)
				}
			}
			// per-stream containers: insertions reachable from the Bind whose key derives from StreamInfo.SSRC
			fields := map[string]containerOp{}
			for _, op := range ins {
				if !reachB[op.fn] {
					continue
				}
				if !keyFromStreamInfo(p, op) {
					continue
				}
				if _, dup := fields[op.field]; !dup {
					fields[op.field] = op
				}
			}
			unbind := p.MethodOf(t, "Unbind"+dir+"Stream")
			var reachU map[*ssa.Function]bool
			if unbind != nil && p.InUniverse(unbind) {
				reachU = reachableFuncs(p, []*ssa.Function{unbind}, false)
			}
			for _, f := range sortedKeys(fields) {
				op := fields[f]
				key := fmt.Sprintf("%s.Bind%sStream:%s", tk, dir, f)
				pos := p.instrPos(op.at)
				var problems []string
				found := false
				for _, d := range del {
					if d.field == f && reachU[d.fn] {
						found = true
					}
				}
				if !found {
					// is it deleted in the other direction's unbind?
					other := "Local"
					if dir == "Local" {
						other = "Remote"
					}
					hint := ""
					if ou := p.MethodOf(t, "Unbind"+other+"Stream"); ou != nil && p.InUniverse(ou) {
						ro := reachableFuncs(p, []*ssa.Function{ou}, false)
						for _, d := range del {
							if d.field == f && ro[d.fn] {
								hint = fmt.Sprintf(" (it is deleted only in Unbind%sStream: wrong direction)", other)
							}
						}
					}
					problems = append(problems, fmt.Sprintf("entries inserted by Bind%sStream are never removed by Unbind%sStream%s: per-stream state and activity outlive the stream", dir, dir, hint))
				}
				// fresh state on re-bind: the inserting function must not hand back a stored entry
				if reuseOfStored(p, op) {
					problems = append(problems, "binding an SSRC that is already present reuses the stored state instead of starting fresh")
				}
				if len(problems) > 0 {
					o.bad("D5", key, pos, strings.Join(problems, "; "))
				} else {
					o.ok("D5", key, pos, fmt.Sprintf("inserted on Bind%sStream, removed on Unbind%sStream, fresh state per bind", dir, dir))
				}
			}
		}
	}
}

// keyFromStreamInfo: the inserted key derives from the SSRC field of a StreamInfo (possibly through call arguments).
func keyFromStreamInfo(p *Prog, op containerOp) bool {
	var key ssa.Value
	switch x := op.at.(type) {
	case *ssa.MapUpdate:
		key = x.Key
	case *ssa.Call:
		k := 1
		if op.keyArg > 0 {
			k = op.keyArg
		}
		if k < len(x.Call.Args) {
			key = x.Call.Args[k]
		}
	}
	if key == nil {
		return false
	}
	isSSRC := func(v ssa.Value) bool {
		if u, ok := v.(*ssa.UnOp); ok && u.Op == token.MUL {
			if fa, ok := u.X.(*ssa.FieldAddr); ok && fieldKeyAddr(fa) == "interceptor.StreamInfo.SSRC" {
				return true
			}
		}
		return false
	}
	if p.backwardReaches(key, isSSRC) {
		return true
	}
	// through a parameter: any static call site passes a value derived from StreamInfo.SSRC
	found := false
	p.backwardReaches(key, func(v ssa.Value) bool {
		par, ok := v.(*ssa.Parameter)
		if !ok {
			return false
		}
		fn := par.Parent()
		idx := -1
		for i, pp := range fn.Params {
			if pp == par {
				idx = i
			}
		}
		for _, f2 := range p.Funcs {
			instrsOf(f2, func(in ssa.Instruction) {
				ci, ok := in.(ssa.CallInstruction)
				if !ok {
					return
				}
				for _, c := range p.Callees(ci) {
					if c != fn {
						continue
					}
					args := ci.Common().Args
					if ci.Common().IsInvoke() {
						args = append([]ssa.Value{ci.Common().Value}, args...)
					}
					if idx >= 0 && idx < len(args) && p.backwardReaches(args[idx], isSSRC) {
						found = true
					}
				}
			})
		}
		return found
	})
	return found
}

// reuseOfStored: the function that inserts also looks the same container up and returns the stored value.
func reuseOfStored(p *Prog, op containerOp) bool {
	reuse := false
	instrsOf(op.fn, func(in ssa.Instruction) {
		lk, ok := in.(*ssa.Lookup)
		if !ok || containerKey(p, lk.X) != op.field {
			return
		}
		for _, b := range op.fn.Blocks {
			if ret, ok := b.Instrs[len(b.Instrs)-1].(*ssa.Return); ok {
				for _, r := range ret.Results {
					if p.backwardReaches(r, func(v ssa.Value) bool { return v == ssa.Value(lk) }) {
						reuse = true
					}
				}
			}
		}
	})
	return reuse
}

// closeLockProtocol: the blocking send runs with some lock held (read or write) and every close() of the same channel
// field in the universe runs with that lock write-held. Returns the lock and the number of close sites.
func closeLockProtocol(p *Prog, send *ssa.Send, chanFld string) (string, int) {
	la := p.Locks()
	held := la.info[send.Parent()].before[send]
	if len(held) == 0 {
		return "", 0
	}
	type site struct {
		fn *ssa.Function
		in ssa.Instruction
	}
	var closes []site
	for _, f := range p.Funcs {
		instrsOf(f, func(in ssa.Instruction) {
			c, ok := in.(*ssa.Call)
			if !ok || builtinName(&c.Call) != "close" {
				return
			}
			for id := range chanIdents(p, c.Call.Args[0]) {
				if id == chanFld {
					closes = append(closes, site{f, in})
				}
			}
		})
	}
	if len(closes) == 0 {
		return "", 0
	}
	for _, l := range sortedKeys(held) {
		if held[l] < 1 {
			continue
		}
		all := true
		for _, c := range closes {
			if la.info[c.fn] == nil || la.info[c.fn].before[c.in][l] != 2 {
				all = false
			}
		}
		if all {
			return l, len(closes)
		}
	}
	return "", 0
}
