package main

import (
	"fmt"
	"go/token"
	"go/types"
	"sort"
	"strings"

	"golang.org/x/tools/go/ssa"
)

// backwardReaches reports whether target is in the backward data slice of v: operands of the defining instruction,
// phi edges, stores into local allocs that v loads from or whose address feeds v (var-args arrays, composite
// literals), and call arguments (a call result is assumed to depend on its arguments). Loads from non-local memory
// (fields of the receiver, globals) end the walk.
func (p *Prog) backwardReaches(v ssa.Value, target func(ssa.Value) bool) bool {
	seen := map[ssa.Value]bool{}
	lvl := 0
	var walk func(v ssa.Value, depth int) bool
	walk = func(v ssa.Value, depth int) bool {
		if v == nil || seen[v] || depth > 200 {
			return false
		}
		seen[v] = true
		if target(v) {
			return true
		}
		switch x := v.(type) {
		case *ssa.Phi:
			for _, e := range x.Edges {
				if walk(e, depth+1) {
					return true
				}
			}
		case *ssa.Alloc:
			// everything stored into (parts of) this local object
			for _, st := range p.storesInto(x) {
				if walk(st.Val, depth+1) {
					return true
				}
			}
		case *ssa.MakeSlice:
			// a local slice filled element by element (errs[i] = f()): what is stored into its elements
			if x.Referrers() != nil {
				for _, r := range *x.Referrers() {
					if ia, ok := r.(*ssa.IndexAddr); ok && ia.Referrers() != nil {
						for _, r2 := range *ia.Referrers() {
							if st, ok := r2.(*ssa.Store); ok && st.Addr == ssa.Value(ia) && walk(st.Val, depth+1) {
								return true
							}
						}
					}
				}
			}
			for _, op := range x.Operands(nil) {
				if *op != nil && walk(*op, depth+1) {
					return true
				}
			}
		case *ssa.FreeVar:
			r := resolveFreeVar(x)
			if r != x {
				return walk(r, depth+1)
			}
		case *ssa.Parameter, *ssa.Const, *ssa.Global, *ssa.Function, *ssa.Builtin:
			return false
		case *ssa.UnOp:
			if x.Op == token.MUL {
				root := addrRoot(x.X)
				if al, ok := cellAddr(root).(*ssa.Alloc); ok {
					return walk(al, depth+1)
				}
				if _, ok := root.(*ssa.Parameter); ok {
					// load through a parameter pointer (*header, header.CSRC): derived from the parameter
					return walk(root, depth+1)
				}
				if fv, ok := root.(*ssa.FreeVar); ok {
					return walk(fv, depth+1)
				}
				switch root.(type) {
				case *ssa.Extract, *ssa.Call, *ssa.Phi, *ssa.TypeAssert:
					// load through a pointer that is itself a computed value: depends on that value
					return walk(root, depth+1)
				}
				return false // non-local memory
			}
			return walk(x.X, depth+1)
		case ssa.Instruction:
			for _, op := range x.Operands(nil) {
				if *op != nil && walk(*op, depth+1) {
					return true
				}
			}
			// the result of a repository helper also depends on what the helper's returns are computed from (fields
			// of its receiver, …): a test moved into a predicate helper is still that test
			if c, ok := v.(*ssa.Call); ok && lvl < 3 {
				if sc := c.Call.StaticCallee(); sc != nil && p.InUniverse(sc) && sc.Blocks != nil {
					lvl++
					isPred := false
					if b, ok := c.Type().Underlying().(*types.Basic); ok && b.Kind() == types.Bool {
						isPred = true
					}
					var pdom map[*ssa.BasicBlock]map[*ssa.BasicBlock]bool
					for _, b := range sc.Blocks {
						if ret, ok := b.Instrs[len(b.Instrs)-1].(*ssa.Return); ok {
							for _, r := range ret.Results {
								if walk(r, depth+1) {
									lvl--
									return true
								}
							}
							// a predicate helper that returns constants: its result is decided by the tests that select
							// the return
							if isPred {
								if pdom == nil {
									pdom = postDominators(sc)
								}
								for cb := range transitiveControlDeps(sc, pdom, b) {
									if cnd := ifCond(cb); cnd != nil && walk(cnd, depth+1) {
										lvl--
										return true
									}
								}
							}
						}
					}
					lvl--
				}
			}
		}
		return false
	}
	return walk(v, 0)
}

// addrRoot strips FieldAddr/IndexAddr/Slice-of-array steps from an address and returns the base pointer.
func addrRoot(v ssa.Value) ssa.Value {
	for {
		switch x := v.(type) {
		case *ssa.FieldAddr:
			v = x.X
		case *ssa.IndexAddr:
			v = x.X
		case *ssa.Slice:
			v = x.X
		case *ssa.ChangeType:
			v = x.X
		default:
			return v
		}
	}
}

// storesInto returns all stores whose address is rooted (through FieldAddr/IndexAddr/Slice) at the given alloc,
// in the allocating function and closures nested in it.
func (p *Prog) storesInto(al *ssa.Alloc) []*ssa.Store {
	var out []*ssa.Store
	for _, f := range allNested(al.Parent()) {
		instrsOf(f, func(in ssa.Instruction) {
			if st, ok := in.(*ssa.Store); ok {
				if cellAddr(addrRoot(st.Addr)) == ssa.Value(al) {
					out = append(out, st)
				}
			}
		})
	}
	return out
}

// countMask is a set of event counts on paths: bit0 = zero events, bit1 = exactly one, bit2 = two or more.
type countMask uint8

func (m countMask) inc() countMask {
	var r countMask
	if m&1 != 0 {
		r |= 2
	}
	if m&2 != 0 {
		r |= 4
	}
	if m&4 != 0 {
		r |= 4
	}
	return r
}

func (m countMask) String() string {
	s := ""
	if m&1 != 0 {
		s += "0"
	}
	if m&2 != 0 {
		if s != "" {
			s += ","
		}
		s += "1"
	}
	if m&4 != 0 {
		if s != "" {
			s += ","
		}
		s += "≥2"
	}
	return "{" + s + "}"
}

// pathCounts computes, for every instruction of fn, the set of possible numbers of event instructions executed on a
// path from the entry to just before that instruction. Edges whose branch condition is refuted by facts are still
// followed (path-insensitive), except edges out of blocks that end in panic.
func pathCounts(fn *ssa.Function, isEvent func(ssa.Instruction) bool) (before map[ssa.Instruction]countMask, blockIn map[*ssa.BasicBlock]countMask) {
	in := map[*ssa.BasicBlock]countMask{}
	out := map[*ssa.BasicBlock]countMask{}
	if len(fn.Blocks) == 0 {
		return nil, nil
	}
	in[fn.Blocks[0]] = 1
	// recover block (if any) is entered with unknown count: treat as all
	if fn.Recover != nil {
		in[fn.Recover] = 7
	}
	changed := true
	for changed {
		changed = false
		for _, b := range fn.Blocks {
			m := in[b]
			for _, pr := range b.Preds {
				m |= out[pr]
			}
			if m != in[b] {
				in[b] = m
				changed = true
			}
			o := m
			for _, ins := range b.Instrs {
				if isEvent(ins) {
					o = o.inc()
				}
			}
			if o != out[b] {
				out[b] = o
				changed = true
			}
		}
	}
	before = map[ssa.Instruction]countMask{}
	for _, b := range fn.Blocks {
		m := in[b]
		for _, ins := range b.Instrs {
			before[ins] = m
			if isEvent(ins) {
				m = m.inc()
			}
		}
	}
	return before, in
}

// isLoggerCall reports a call on a pion/logging logger (no effect on interceptor state).
func isLoggerCall(c *ssa.CallCommon) bool {
	if c.IsInvoke() {
		if n := namedOf(c.Value.Type()); n != nil && n.Obj().Pkg() != nil && n.Obj().Pkg().Path() == "github.com/pion/logging" {
			return true
		}
		return false
	}
	if f := c.StaticCallee(); f != nil && f.Pkg != nil && f.Pkg.Pkg.Path() == "github.com/pion/logging" {
		return true
	}
	return false
}

// pureBuiltins are builtins with no effect on memory.
var pureBuiltins = map[string]bool{"len": true, "cap": true, "min": true, "max": true, "real": true, "imag": true}

// isErrorsNew reports calls that construct a fresh non-nil error.
func isFreshError(c *ssa.CallCommon) bool {
	return isCallTo(c, "errors.New", "fmt.Errorf")
}

// nonNilError reports whether the error value v is certainly non-nil at block b.
func (p *Prog) nonNilError(v ssa.Value, b *ssa.BasicBlock) bool {
	v0 := p.origin(v)
	switch x := v0.(type) {
	case *ssa.UnOp:
		// load of a package-level error variable (var errX = errors.New(...)) that is never reassigned
		if x.Op == token.MUL {
			if g, ok := x.X.(*ssa.Global); ok && isErrorType(deref(g.Type())) && p.globalInitNonNil(g) {
				return true
			}
		}
	case *ssa.Call:
		if isFreshError(&x.Call) {
			return true
		}
	case *ssa.MakeInterface:
		// a concrete non-pointer value boxed as error is non-nil; a pointer may be nil
		if _, isPtr := x.X.Type().Underlying().(*types.Pointer); !isPtr {
			return true
		}
		if _, isAlloc := x.X.(*ssa.Alloc); isAlloc {
			return true
		}
	case *ssa.Phi:
		all := true
		for i, e := range x.Edges {
			if !p.nonNilError(e, x.Block().Preds[i]) {
				all = false
			}
		}
		if all {
			return true
		}
	}
	return p.nilnessAt(v, b) == 1
}

// globalInitNonNil: the global is assigned exactly once, in the package initialiser, from errors.New/fmt.Errorf.
func (p *Prog) globalInitNonNil(g *ssa.Global) bool {
	n, okInit := 0, false
	for _, sp := range p.SSA.AllPackages() {
		if sp != g.Pkg {
			continue
		}
		for _, m := range sp.Members {
			f, ok := m.(*ssa.Function)
			if !ok {
				continue
			}
			for _, ff := range allNested(f) {
				instrsOf(ff, func(in ssa.Instruction) {
					if st, ok := in.(*ssa.Store); ok && st.Addr == ssa.Value(g) {
						n++
						if c, ok := st.Val.(*ssa.Call); ok && isFreshError(&c.Call) && ff.Name() == "init" {
							okInit = true
						}
					}
				})
			}
		}
		// methods may also assign
		for _, f := range p.Funcs {
			if f.Pkg == sp && f.Signature.Recv() != nil {
				instrsOf(f, func(in ssa.Instruction) {
					if st, ok := in.(*ssa.Store); ok && st.Addr == ssa.Value(g) {
						n++
					}
				})
			}
		}
	}
	return n == 1 && okInit
}

// ---- path-sensitive facts over strictly pure conditions -------------------------------------------------------------

// strictPure: an expression built only from parameters (not dereferenced), constants, len/cap of slice parameters,
// arithmetic, comparisons and conversions. Its value cannot change during one invocation, so two evaluations of the same
// expression (go/ssa has no CSE) agree.
func (p *Prog) strictPure(v ssa.Value, d int) bool {
	if d > 10 {
		return false
	}
	v = p.origin(v)
	switch x := v.(type) {
	case *ssa.Parameter, *ssa.Const:
		return true
	case *ssa.BinOp:
		return p.strictPure(x.X, d+1) && p.strictPure(x.Y, d+1)
	case *ssa.Convert:
		return p.strictPure(x.X, d+1)
	case *ssa.UnOp:
		return x.Op != token.MUL && x.Op != token.ARROW && p.strictPure(x.X, d+1)
	case *ssa.Call:
		if b := builtinName(&x.Call); b == "len" || b == "cap" {
			_, isPar := p.origin(x.Call.Args[0]).(*ssa.Parameter)
			return isPar
		}
	}
	return false
}

// factKey: the key under which a branch condition is remembered along a path. Strictly pure conditions are keyed
// structurally (two evaluations agree); any other condition is keyed by the identity of its SSA value, which is sound
// when the value is computed once per invocation (its block is not on a cycle), e.g. `isRTX := a != 0 && b != 0`
// tested twice.
func (p *Prog) factKey(cond ssa.Value) (string, bool) {
	if p.strictPure(cond, 0) {
		return p.pureKey(cond), true
	}
	in, ok := cond.(ssa.Instruction)
	if !ok || in.Block() == nil {
		return "", false
	}
	if reachableFrom(in.Block())[in.Block()] {
		return "", false
	}
	return fmt.Sprintf("id:%p", cond), true
}

type pathFact struct {
	cond  ssa.Value
	truth bool
	ct    bool // truth of the canonical form the fact is keyed by (x != y is keyed as x == y, x > y as x <= y, …)
}

// canonFact is factKey with the comparison brought into a canonical form, so that `p != nil` false and `p == nil`
// true (or `n > k` and `n <= k`) are recognised as the same fact: it returns the key of the canonical comparison and
// the truth value the fact has for that comparison.
func (p *Prog) canonFact(cond ssa.Value, truth bool) (string, bool, bool) {
	k, ok := p.factKey(cond)
	if !ok {
		return "", false, false
	}
	bo, isBin := cond.(*ssa.BinOp)
	if !isBin {
		return k, truth, true
	}
	op, t := bo.Op, truth
	switch op {
	case token.NEQ:
		op, t = token.EQL, !t
	case token.GTR:
		op, t = token.LEQ, !t
	case token.GEQ:
		op, t = token.LSS, !t
	case token.EQL, token.LEQ, token.LSS:
	default:
		return k, truth, true
	}
	var kx, ky string
	if strings.HasPrefix(k, "id:") {
		kx, ky = fmt.Sprintf("%p", p.origin(bo.X)), fmt.Sprintf("%p", p.origin(bo.Y))
		if c, isC := p.origin(bo.X).(*ssa.Const); isC {
			kx = p.pureKey(c)
		}
		if c, isC := p.origin(bo.Y).(*ssa.Const); isC {
			ky = p.pureKey(c)
		}
	} else {
		kx, ky = p.pureKey(bo.X), p.pureKey(bo.Y)
	}
	if op == token.EQL && ky < kx {
		kx, ky = ky, kx
	}
	pre := ""
	if strings.HasPrefix(k, "id:") {
		pre = "id:"
	}
	return pre + "(" + kx + op.String() + ky + ")", t, true
}

// disjunct is one path class: the pure conditions known on it.
type disjunct map[string]pathFact

func (d disjunct) key() string {
	ks := make([]string, 0, len(d))
	for k, f := range d {
		if f.ct {
			ks = append(ks, k+"=T")
		} else {
			ks = append(ks, k+"=F")
		}
	}
	sort.Strings(ks)
	return strings.Join(ks, ";")
}

const maxDisjuncts = 24

// purePathFacts computes, per block, the disjuncts of pure-condition facts holding on entry. Contradictory path
// classes (the same pure condition both true and false) are infeasible and dropped.
func (p *Prog) purePathFacts(fn *ssa.Function) map[*ssa.BasicBlock][]disjunct {
	if p.pathFactCache == nil {
		p.pathFactCache = map[*ssa.Function]map[*ssa.BasicBlock][]disjunct{}
	}
	if r, ok := p.pathFactCache[fn]; ok {
		return r
	}
	in := map[*ssa.BasicBlock][]disjunct{}
	if len(fn.Blocks) == 0 {
		return in
	}
	in[fn.Blocks[0]] = []disjunct{{}}
	edgeFact := func(from, to *ssa.BasicBlock) (string, pathFact, bool) {
		c := ifCond(from)
		if c == nil || from.Succs[0] == from.Succs[1] {
			return "", pathFact{}, false
		}
		f := normFact(condFact{c, from.Succs[0] == to})
		k, ct, ok := p.canonFact(f.cond, f.truth)
		if !ok {
			return "", pathFact{}, false
		}
		return k, pathFact{f.cond, f.truth, ct}, true
	}
	for iter := 0; iter < 50; iter++ {
		changed := false
		for _, b := range fn.Blocks {
			if b == fn.Blocks[0] {
				continue
			}
			seen := map[string]bool{}
			var nw []disjunct
			for _, pr := range b.Preds {
				k, f, has := edgeFact(pr, b)
				for _, d := range in[pr] {
					if has {
						if old, ok := d[k]; ok && old.ct != f.ct {
							continue // infeasible
						}
					}
					nd := disjunct{}
					for kk, vv := range d {
						nd[kk] = vv
					}
					if has {
						nd[k] = f
					}
					dk := nd.key()
					if !seen[dk] {
						seen[dk] = true
						nw = append(nw, nd)
					}
				}
			}
			if len(nw) > maxDisjuncts {
				// collapse to the facts common to all
				common := disjunct{}
				for k, f := range nw[0] {
					all := true
					for _, d := range nw[1:] {
						if g, ok := d[k]; !ok || g.ct != f.ct {
							all = false
							break
						}
					}
					if all {
						common[k] = f
					}
				}
				nw = []disjunct{common}
			}
			if !sameDisjuncts(in[b], nw) {
				in[b] = nw
				changed = true
			}
		}
		if !changed {
			break
		}
	}
	p.pathFactCache[fn] = in
	return in
}

func sameDisjuncts(a, b []disjunct) bool {
	if len(a) != len(b) {
		return false
	}
	m := map[string]bool{}
	for _, d := range a {
		m[d.key()] = true
	}
	for _, d := range b {
		if !m[d.key()] {
			return false
		}
	}
	return true
}

// factsAt returns the feasible path classes at block b, each extended with the (dominance-based) facts that hold at
// b on every path. A nil result means b is unreachable under the pure conditions.
func (p *Prog) factsAt(b *ssa.BasicBlock) [][]condFact {
	dom := dominatingFacts(b)
	for i := range dom {
		dom[i] = normFact(dom[i])
	}
	ds := p.purePathFacts(b.Parent())[b]
	if len(ds) == 0 {
		return [][]condFact{dom}
	}
	var out [][]condFact
	for _, d := range ds {
		// drop classes contradicted by dominating pure facts
		ok := true
		for _, f := range dom {
			if k, ct, isKey := p.canonFact(f.cond, f.truth); isKey {
				if g, has := d[k]; has && g.ct != ct {
					ok = false
				}
			}
		}
		if !ok {
			continue
		}
		fs := append([]condFact{}, dom...)
		for _, k := range sortedKeys(d) {
			fs = append(fs, condFact{d[k].cond, d[k].truth})
		}
		out = append(out, fs)
	}
	if len(out) == 0 {
		return [][]condFact{dom}
	}
	return out
}
