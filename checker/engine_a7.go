package main

// A7 — the length a reader reports is the length of what it put into the caller's buffer. The n returned by an
// RTP/RTCP reader (with any error: callers slice the buffer with it before they look at the error, and the chain
// hands it on) must be one of: the n the wrapped reader returned, the result of a copy into the caller's buffer, the
// n of a MarshalTo into the caller's buffer, the constant 0 — directly, merged by a φ, or returned by a repository
// helper under the same rule. `len(raw)` of a packet that was marshalled elsewhere and then copied can exceed
// len(b): the caller re-slices its buffer with it and panics, or parses bytes that were never written.

import (
	"fmt"
	"go/token"
	"go/types"
	"strings"

	"golang.org/x/tools/go/ssa"
)

func init() {
	registerEngine("A7", []string{"A7"}, runEngineA7)
}

func runEngineA7(p *Prog, o *obls) {
	closures, _ := p.PktClosures()
	for _, c := range closures {
		if c.Kind != RTPReader && c.Kind != RTCPReader {
			continue
		}
		pk := packetParams(c)
		if len(pk) == 0 {
			continue
		}
		buf := ssa.Value(pk[0])
		key := closureKey(c) + ":n"
		var bad []string
		n := 0
		paramAllowed := map[ssa.Value]bool{}
		var allowed func(v ssa.Value, fn *ssa.Function, buf ssa.Value, depth int, seen map[ssa.Value]bool) (bool, string)
		allowed = func(v ssa.Value, fn *ssa.Function, buf ssa.Value, depth int, seen map[ssa.Value]bool) (bool, string) {
			v = p.origin(v)
			if seen[v] {
				return true, ""
			}
			seen[v] = true
			derivesFromBuf := func(x ssa.Value) bool {
				return p.backwardReaches(x, func(y ssa.Value) bool { return y == buf })
			}
			if ok, known := paramAllowed[v]; known {
				if ok {
					return true, ""
				}
				return false, "a length handed to the helper that is not a length of the caller's buffer"
			}
			switch x := v.(type) {
			case *ssa.Const:
				if c, ok := constInt(x); ok && c == 0 {
					return true, ""
				}
				return false, "a non-zero constant"
			case *ssa.Phi:
				for _, e := range x.Edges {
					if ok, why := allowed(e, fn, buf, depth, seen); !ok {
						return false, why
					}
				}
				return true, ""
			case *ssa.UnOp:
				// a result cell (functions with defer spill their results): every value assigned to it
				if al, isCell := cellAddr(x.X).(*ssa.Alloc); isCell && x.Op == token.MUL {
					sts := p.storesToCell(al)
					if len(sts) == 0 {
						return false, "an unassigned result"
					}
					for _, st := range sts {
						if ok, why := allowed(st.Val, fn, buf, depth, seen); !ok {
							return false, why
						}
					}
					return true, ""
				}
			case *ssa.Call:
				if builtinName(&x.Call) == "copy" {
					if derivesFromBuf(x.Call.Args[0]) {
						return true, ""
					}
					return false, "the result of a copy into something other than the caller's buffer"
				}
				if builtinName(&x.Call) == "min" {
					for _, a := range x.Call.Args {
						if ok, _ := allowed(a, fn, buf, depth, seen); ok {
							return true, ""
						}
						if lc, isC := p.origin(a).(*ssa.Call); isC && builtinName(&lc.Call) == "len" && derivesFromBuf(lc.Call.Args[0]) {
							return true, ""
						}
					}
				}
				return false, "the result of " + shortCallee(calleeName(&x.Call))
			case *ssa.Extract:
				call, ok := x.Tuple.(*ssa.Call)
				if !ok || x.Index != 0 {
					return false, "a value that is not a length of the caller's buffer"
				}
				// the wrapped reader
				if call.Call.IsInvoke() && call.Call.Method.Name() == "Read" && isChainIface(p, call.Call.Value.Type()) {
					return true, ""
				}
				sc := call.Call.StaticCallee()
				if sc == nil {
					// a reader function value (interceptor.RTPReaderFunc) called directly
					return true, ""
				}
				if !p.InUniverse(sc) {
					if sc.Name() == "MarshalTo" || sc.Name() == "Read" || sc.Name() == "ReadFull" {
						for _, a := range call.Call.Args {
							if derivesFromBuf(a) {
								return true, ""
							}
						}
						return false, "the n of " + shortCallee(calleeName(&call.Call)) + " into something other than the caller's buffer"
					}
					return false, "the result of " + shortCallee(calleeName(&call.Call))
				}
				if depth >= 3 || sc.Blocks == nil {
					return true, "" // not followed further
				}
				// a repository helper: its first result under the same rule, with the buffer mapped to its parameter
				var hbuf ssa.Value
				for i, a := range call.Call.Args {
					if i < len(sc.Params) && derivesFromBuf(a) && p.origin(a) == buf {
						hbuf = sc.Params[i]
					}
					// an integer the helper is handed (the n read upstream) is judged here, where it comes from
					if i < len(sc.Params) {
						if bt, isB := sc.Params[i].Type().Underlying().(*types.Basic); isB && bt.Info()&types.IsInteger != 0 {
							okA, _ := allowed(a, fn, buf, depth+1, map[ssa.Value]bool{})
							paramAllowed[sc.Params[i]] = okA
						}
					}
				}
				for _, b := range sc.Blocks {
					ret, ok := b.Instrs[len(b.Instrs)-1].(*ssa.Return)
					if !ok || len(ret.Results) == 0 {
						continue
					}
					hb := hbuf
					if hb == nil {
						hb = buf
					}
					if ok, why := allowed(ret.Results[0], sc, hb, depth+1, seen); !ok {
						return false, why + " (returned by " + funcKey(sc) + ")"
					}
				}
				return true, ""
			}
			return false, "a value that is not a length of the caller's buffer (" + shortExpr(p, v) + ")"
		}
		for _, b := range c.Fn.Blocks {
			ret, ok := b.Instrs[len(b.Instrs)-1].(*ssa.Return)
			if !ok || len(ret.Results) < 1 || b == c.Fn.Recover {
				continue
			}
			n++
			if ok, why := allowed(ret.Results[0], c.Fn, buf, 0, map[ssa.Value]bool{}); !ok {
				bad = append(bad, fmt.Sprintf("the length returned at %s is %s: it can exceed the caller's buffer", p.instrPos(ret), why))
			}
		}
		if len(bad) > 0 {
			o.bad("A7", key, p.Pos(c.Fn.Pos()), strings.Join(dedupe(bad), "; "))
		} else {
			o.ok("A7", key, p.Pos(c.Fn.Pos()), fmt.Sprintf("%d return(s): the reported length is the wrapped reader's, a copy/MarshalTo into the caller's buffer, or 0", n))
		}
	}
}
