package main

// F8 — nothing half-parsed is published. The receiver-filling parsers (`header.Unmarshal(raw)`) write into the object
// as they go and may fail half way: a header whose CSRC list was sized from the first byte and nothing else set. Such
// an object is handed on only where the parse is known to have succeeded. An object that is filed in long-lived
// storage — the attributes' cache, a map or field of the receiver, a channel — *before* the parse (to be "filled in
// place") or on a path on which its error may be non-nil stays there when the parse fails: the next caller of the
// cache gets the half-filled object with a nil error, and slices the packet by a header size that has nothing to do
// with it.
//
// For every call of a receiver-filling parser on an object allocated in the same function: every map assignment,
// store through a parameter/receiver/global, or channel send of that object is dominated by the call and lies where
// the call's error is known nil.

import (
	"fmt"
	"go/types"
	"sort"
	"strings"

	"golang.org/x/tools/go/ssa"
)

func init() {
	registerEngine("F8", []string{"F8"}, runEngineF8)
}

func runEngineF8(p *Prog, o *obls) {
	n := 0
	for _, fn := range p.Funcs {
		if fn.Blocks == nil || !p.InUniverse(fn) {
			continue
		}
		k := 0
		instrsOf(fn, func(in ssa.Instruction) {
			call, ok := in.(*ssa.Call)
			if !ok || call.Call.IsInvoke() || len(call.Call.Args) == 0 {
				return
			}
			sc := call.Call.StaticCallee()
			if sc == nil || sc.Signature.Recv() == nil {
				return
			}
			if !parseRecvFuncs[calleeName(&call.Call)] && !(strings.HasPrefix(sc.Name(), "Unmarshal") && sc.Signature.Results().Len() >= 1 && isErrorType(sc.Signature.Results().At(sc.Signature.Results().Len()-1).Type())) {
				return
			}
			if _, isPtr := sc.Signature.Recv().Type().Underlying().(*types.Pointer); !isPtr {
				return
			}
			obj, ok := p.origin(call.Call.Args[0]).(*ssa.Alloc)
			if !ok || obj.Parent() != fn && !isNestedIn(fn, obj.Parent()) {
				return
			}
			var errV ssa.Value
			if _, isTuple := call.Type().(*types.Tuple); isTuple {
				if fe := errExtract(call); fe != nil {
					errV = fe
				}
			} else if isErrorType(call.Type()) {
				errV = call
			}
			n++
			k++
			key := fmt.Sprintf("%s:%s", funcKey(fn), shortCallee(calleeName(&call.Call)))
			if k > 1 {
				key = fmt.Sprintf("%s#%d", key, k)
			}
			isObj := func(v ssa.Value) bool {
				v = p.origin(v)
				if mi, ok := v.(*ssa.MakeInterface); ok {
					v = p.origin(mi.X)
				}
				return v == ssa.Value(obj)
			}
			var bad []string
			judge := func(at ssa.Instruction, what string) {
				okHere := at.Block() == call.Block() && instrIndex(call) < instrIndex(at) || at.Block() != call.Block() && call.Block().Dominates(at.Block())
				if okHere && errV != nil && p.nilnessAt(errV, at.Block()) != -1 {
					// same block as the call: the error has not been tested yet
					okHere = false
				}
				if errV == nil {
					okHere = false
				}
				if !okHere {
					bad = append(bad, fmt.Sprintf("%s at %s", what, p.instrPos(at)))
				}
			}
			instrsOf(fn, func(in2 ssa.Instruction) {
				switch x := in2.(type) {
				case *ssa.MapUpdate:
					if isObj(x.Value) {
						if al, isAl := p.origin(x.Map).(*ssa.MakeMap); isAl && al.Parent() == fn {
							return // a map built here and not yet handed out
						}
						judge(x, "it is filed in a map")
					}
				case *ssa.Store:
					if !isObj(x.Val) {
						return
					}
					root := p.origin(addrRoot(x.Addr))
					switch root.(type) {
					case *ssa.Parameter, *ssa.Global, *ssa.FreeVar:
						judge(x, "it is stored through "+shortExpr(p, root))
					case *ssa.UnOp:
						judge(x, "it is stored into shared memory")
					}
				case *ssa.Send:
					if isObj(x.X) {
						judge(x, "it is sent on a channel")
					}
				}
			})
			if len(bad) > 0 {
				sort.Strings(bad)
				o.bad("F8", key, p.instrPos(call), fmt.Sprintf("the object parsed into at %s is published where the parse may not have succeeded: %s — when the parse fails the half-filled object stays there, and whoever finds it gets it without an error", p.instrPos(call), strings.Join(dedupe(bad), "; ")))
			} else {
				o.ok("F8", key, p.instrPos(call), "the parsed object is filed or handed on only where the parse is known to have succeeded")
			}
		})
	}
	o.ok("F8", "inspected", "-", fmt.Sprintf("%d receiver-filling parse call(s) on objects allocated in the same function", n))
}

func isNestedIn(outer, f *ssa.Function) bool {
	for q := f; q != nil; q = q.Parent() {
		if q == outer {
			return true
		}
	}
	return false
}
