package main

// G3 — index maps. A map whose integer values are used as keys of another container (sequence number → record
// counter) has no "absent" value: a lookup that misses yields 0, which is a legal key. Every lookup on a map field
// with an integer value type whose result is used as a key (of a map or slice, here or in a callee it is passed to)
// must therefore be in comma-ok form, and the value must be used as a key only where ok is known true. Otherwise an
// acknowledgement for an unknown sequence number is attributed to record 0.

import (
	"fmt"
	"go/types"

	"golang.org/x/tools/go/ssa"
)

func init() {
	registerEngine("G3", []string{"G3"}, runEngineG3)
}

// usedAsKey: v (or a value copied from it) indexes a map or slice in fn, or is handed to a universe callee whose
// parameter does. Returns a description of the first such use.
func usedAsKey(p *Prog, v ssa.Value, depth int, seen map[ssa.Value]bool) (ssa.Instruction, string) {
	if v == nil || seen[v] || depth > 3 || v.Referrers() == nil {
		return nil, ""
	}
	seen[v] = true
	for _, r := range *v.Referrers() {
		switch x := r.(type) {
		case *ssa.Lookup:
			if x.Index == v {
				return x, "key of the lookup at " + p.instrPos(x)
			}
		case *ssa.MapUpdate:
			if x.Key == v {
				return x, "key of the map update at " + p.instrPos(x)
			}
		case *ssa.IndexAddr:
			if x.Index == v {
				return x, "index at " + p.instrPos(x)
			}
		case *ssa.Phi, *ssa.Convert, *ssa.ChangeType:
			if in, w := usedAsKey(p, x.(ssa.Value), depth, seen); in != nil {
				return in, w
			}
		case *ssa.Store:
			// spilled into a local cell and reloaded
			if al, ok := cellAddr(x.Addr).(*ssa.Alloc); ok && x.Val == v {
				for _, rr := range *al.Referrers() {
					if u, ok := rr.(*ssa.UnOp); ok {
						if in, w := usedAsKey(p, u, depth, seen); in != nil {
							return in, w
						}
					}
				}
			}
		case ssa.CallInstruction:
			sc := x.Common().StaticCallee()
			if sc == nil || !p.InUniverse(sc) || sc.Blocks == nil {
				continue
			}
			for i, a := range x.Common().Args {
				if a == v && i < len(sc.Params) {
					if in, w := usedAsKey(p, sc.Params[i], depth+1, seen); in != nil {
						return x.(ssa.Instruction), "argument of " + shortCallee(funcKey(sc)) + " at " + p.instrPos(x.(ssa.Instruction)) + ", where it is the " + w
					}
				}
			}
		}
	}
	return nil, ""
}

func runEngineG3(p *Prog, o *obls) {
	for _, fn := range p.Funcs {
		instrsOf(fn, func(in ssa.Instruction) {
			lk, ok := in.(*ssa.Lookup)
			if !ok {
				return
			}
			mt, ok := lk.X.Type().Underlying().(*types.Map)
			if !ok {
				return
			}
			bt, ok := mt.Elem().Underlying().(*types.Basic)
			if !ok || bt.Info()&types.IsInteger == 0 {
				return
			}
			// a map held in a struct field (long-lived index), not a local
			mapV := p.origin(lk.X)
			if par, isPar := mapV.(*ssa.Parameter); isPar {
				// the lookup sits in a helper that receives the index map (onIndexedFeedback(h, h.twccToCounter, …)):
				// it is a lookup on the fields its callers pass
				if args, _, closed := p.argsForParam(par); closed && len(args) > 0 {
					mapV = p.origin(args[0])
					for _, a := range args[1:] {
						if _, isLoad := p.origin(a).(*ssa.UnOp); !isLoad {
							mapV = nil
						}
					}
				}
			}
			u, ok := mapV.(*ssa.UnOp)
			if !ok {
				return
			}
			fa, ok := u.X.(*ssa.FieldAddr)
			if !ok {
				return
			}
			key := fmt.Sprintf("%s@%s", fieldKeyAddr(fa), funcKey(fn))
			if !lk.CommaOk {
				if use, w := usedAsKey(p, lk, 0, map[ssa.Value]bool{}); use != nil {
					o.bad("G3", key, p.instrPos(lk), "the value of a lookup without comma-ok on the index map "+fieldKeyAddr(fa)+" is used as "+w+": a miss yields 0, which names a real record")
				}
				return
			}
			var val, okv ssa.Value
			for _, r := range *lk.Referrers() {
				if ex, isEx := r.(*ssa.Extract); isEx {
					if ex.Index == 0 {
						val = ex
					} else {
						okv = ex
					}
				}
			}
			if val == nil {
				return
			}
			use, w := usedAsKey(p, val, 0, map[ssa.Value]bool{})
			if use == nil {
				// an accessor that hands the value and its ok flag back together (`func (t *table) counterByTWCC(seq)
				// (uint64, bool)`): the obligation moves to the callers — the value they receive is used as a key only
				// where the flag they receive is true
				vi, oi := -1, -1
				for _, b := range fn.Blocks {
					if ret, isRet := b.Instrs[len(b.Instrs)-1].(*ssa.Return); isRet {
						for i, r := range ret.Results {
							if p.origin(r) == ssa.Value(val) {
								vi = i
							}
							if okv != nil && p.origin(r) == ssa.Value(okv) {
								oi = i
							}
						}
					}
				}
				if vi < 0 || oi < 0 {
					return
				}
				sites, closed := p.staticCallSites(fn)
				if !closed {
					return
				}
				for _, cs := range sites {
					cv := cs.Value()
					if cv == nil || cv.Referrers() == nil {
						continue
					}
					var cval, cok ssa.Value
					for _, r := range *cv.Referrers() {
						if ex, isEx := r.(*ssa.Extract); isEx {
							if ex.Index == vi {
								cval = ex
							}
							if ex.Index == oi {
								cok = ex
							}
						}
					}
					if cval == nil {
						continue
					}
					cuse, cw := usedAsKey(p, cval, 0, map[ssa.Value]bool{})
					if cuse == nil {
						continue
					}
					ckey := fmt.Sprintf("%s@%s", fieldKeyAddr(fa), funcKey(cs.Parent()))
					g := false
					for _, f := range dominatingFactsInstr(cuse) {
						f = normFact(f)
						if cok != nil && p.origin(f.cond) == p.origin(cok) && f.truth {
							g = true
						}
					}
					if g {
						o.ok("G3", ckey, p.instrPos(cs), "the index map is read through "+funcKey(fn)+" (comma-ok, value and flag returned together); the value is used as "+cw+" only where the flag is true")
					} else {
						o.bad("G3", ckey, p.instrPos(cs), "the value "+funcKey(fn)+" returns from the index map "+fieldKeyAddr(fa)+" is used as "+cw+" without the returned ok flag being known true there: a miss yields 0, which names a real record")
					}
				}
				return
			}
			guarded := false
			for _, f := range dominatingFactsInstr(use) {
				f = normFact(f)
				if okv != nil && p.origin(f.cond) == p.origin(okv) && f.truth {
					guarded = true
				}
			}
			// the value and its ok flag are handed together to a helper (`ackLocked(ts, counter, known, ack)`): inside
			// the helper every use of the value as a key is on the branch where the flag parameter is true
			if !guarded && okv != nil {
				if ci, isCall := use.(ssa.CallInstruction); isCall {
					if sc := ci.Common().StaticCallee(); sc != nil && p.InUniverse(sc) {
						vi, oi := -1, -1
						for i, a := range ci.Common().Args {
							if p.origin(a) == p.origin(val) {
								vi = i
							}
							if p.origin(a) == p.origin(okv) {
								oi = i
							}
						}
						if vi >= 0 && oi >= 0 && vi < len(sc.Params) && oi < len(sc.Params) {
							okPar := sc.Params[oi]
							allGuarded, any := true, false
							var uses func(v ssa.Value, d int)
							uses = func(v ssa.Value, d int) {
								if v.Referrers() == nil || d > 3 {
									return
								}
								for _, r := range *v.Referrers() {
									isKey := false
									switch x := r.(type) {
									case *ssa.Lookup:
										isKey = x.Index == v
									case *ssa.MapUpdate:
										isKey = x.Key == v
									case *ssa.IndexAddr:
										isKey = x.Index == v
									case *ssa.Store:
										if al, ok := cellAddr(x.Addr).(*ssa.Alloc); ok && x.Val == v {
											for _, rr := range *al.Referrers() {
												if u, ok := rr.(*ssa.UnOp); ok {
													uses(u, d+1)
												}
											}
										}
									}
									if !isKey {
										continue
									}
									any = true
									g := false
									for _, f := range dominatingFactsInstr(r) {
										f = normFact(f)
										if p.origin(f.cond) == ssa.Value(okPar) && f.truth {
											g = true
										}
									}
									if !g {
										allGuarded = false
									}
								}
							}
							uses(sc.Params[vi], 0)
							if any && allGuarded {
								guarded = true
							}
						}
					}
				}
			}
			if guarded {
				o.ok("G3", key, p.instrPos(lk), "comma-ok lookup on an index map; its value is used as "+w+" only where ok is true")
			} else {
				o.bad("G3", key, p.instrPos(lk), "the value of the lookup on the index map "+fieldKeyAddr(fa)+" is used as "+w+" without ok being known true there: a miss yields 0, which names a real record")
			}
		})
	}
}
