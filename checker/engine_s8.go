package main

// S8 — a FIR is addressed through its entries. Which streams a feedback packet is about is what its
// DestinationSSRC() says. For most feedback types that is the media-source field of the header (PLI, NACK, …), and a
// comparison of MediaSSRC with the stream's SSRC is the addressing test. A Full Intra Request is the exception: its
// targets are its FCI entries (RFC 5104 4.3.1), one packet can name several, and the "SSRC of media source" field of
// the header is unused and SHALL be zero on the wire — libwebrtc sends exactly that. A test of
// FullIntraRequest.MediaSSRC against a stream's SSRC therefore counts no spec-conformant FIR at all, at most one
// target of a FIR with several entries, and a stream the FIR has no entry for if a sender happens to fill the field.
// No branch of the repository is decided by a comparison of a FullIntraRequest's MediaSSRC.

import (
	"fmt"
	"go/token"
	"go/types"
	"sort"
	"strings"

	"golang.org/x/tools/go/ssa"
)

func init() {
	registerEngine("S8", []string{"S8", "S9"}, runEngineS8)
}

func runEngineS8(p *Prog, o *obls) {
	n := 0
	for _, fn := range p.Funcs {
		if fn.Blocks == nil || !p.InUniverse(fn) {
			continue
		}
		// functions that handle FIRs at all: a type assertion/switch to *FullIntraRequest, or a parameter of that type
		handles := false
		isFIR := func(v ssa.Value) bool {
			k := typeKey(deref(v.Type()))
			return k == "github.com/pion/rtcp.FullIntraRequest" || strings.HasPrefix(k, "fixtures/fx.s8FullIntraRequest")
		}
		instrsOf(fn, func(in ssa.Instruction) {
			if v, ok := in.(ssa.Value); ok && isFIR(v) {
				handles = true
			}
		})
		for _, par := range fn.Params {
			if isFIR(par) {
				handles = true
			}
		}
		if !handles {
			continue
		}
		n++
		var bad []string
		instrsOf(fn, func(in ssa.Instruction) {
			bo, ok := in.(*ssa.BinOp)
			if !ok || bo.Op != token.EQL && bo.Op != token.NEQ {
				return
			}
			for _, side := range []ssa.Value{bo.X, bo.Y} {
				u, ok := p.origin(side).(*ssa.UnOp)
				if !ok || u.Op != token.MUL {
					continue
				}
				fa, ok := u.X.(*ssa.FieldAddr)
				if !ok || !isFIR(fa.X) {
					continue
				}
				if fv := fieldOfAddr(fa); fv != nil && fv.Name() == "MediaSSRC" {
					bad = append(bad, p.instrPos(bo))
				}
			}
		})
		key := funcKey(fn) + ":fir-addressing"
		if len(bad) > 0 {
			sort.Strings(bad)
			o.bad("S8", key, bad[0], fmt.Sprintf("the MediaSSRC of a FullIntraRequest is compared at %s: a FIR names its targets in its FCI entries (DestinationSSRC()), the media-source field is unused and zero on the wire (RFC 5104 4.3.1) — a conformant FIR is attributed to no stream, one with several entries to at most one", strings.Join(dedupe(bad), ", ")))
		} else {
			o.ok("S8", key, p.Pos(fn.Pos()), "FIRs are handled without consulting their MediaSSRC field")
		}
	}
	o.ok("S8", "inspected", "-", fmt.Sprintf("%d function(s) that handle FullIntraRequest packets", n))
	s8OncePerPacket(p, o)
	s9OneMeasurement(p, o)
}

// S9 — one report, one measurement. The recorder finds the report a reply refers to by searching its short history of
// sent timestamps for the one whose middle bits equal the reply's reference (LSR in a reception report, LRR in a DLRR
// block), and books one round-trip measurement on the match. The histories can hold the same middle-32-bit value more
// than once (two reports in one clock tick, every recorder storing every receiver-reference time): a search that goes
// on after the match books the same reply once per duplicate — RoundTripTimeMeasurements and TotalRoundTripTime count
// one report several times. In a loop of a recording function, a block that increments a counter of the statistics
// (`x++` on a field of the stats structs) does not flow back to the loop's header: the match ends the search.
func s9OneMeasurement(p *Prog, o *obls) {
	n := 0
	for _, ss := range statsSpecs {
		statsStateTypes[ss.state] = true
	}
	for _, ss := range statsSpecs {
		if p.Fixture != strings.HasPrefix(ss.recorder, "fixtures/") {
			continue
		}
		for _, fn := range p.Funcs {
			if fn.Blocks == nil || fn.Pkg == nil || relPkg(fn.Pkg.Pkg.Path()) != ss.pkgPath {
				continue
			}
			loops := naturalLoops(fn)
			if len(loops) == 0 {
				continue
			}
			var bad []string
			sites := 0
			instrsOf(fn, func(in ssa.Instruction) {
				st, ok := in.(*ssa.Store)
				if !ok || !throughStatsStruct(st.Addr, ss.pkgPath) {
					return
				}
				bo, ok := st.Val.(*ssa.BinOp)
				if !ok || bo.Op != token.ADD || !isConstInt(bo.Y, 1) {
					return
				}
				if ld, ok := bo.X.(*ssa.UnOp); !ok || ld.Op != token.MUL || p.pureKey(ld.X) != p.pureKey(st.Addr) {
					return
				}
				// the search: a dominating comparison (==) of something computed from an element of a history kept in the
				// recorder's state (lastSenderReports[i]), evaluated inside a loop; the loop is the innermost one
				// around the comparison
				var histIndex ssa.Value
				fromHistory := func(v ssa.Value) bool {
					return p.backwardReaches(v, func(w ssa.Value) bool {
						u, ok := w.(*ssa.UnOp)
						if !ok || u.Op != token.MUL {
							return false
						}
						ia, ok := u.X.(*ssa.IndexAddr)
						if !ok {
							return false
						}
						hl, ok := p.origin(ia.X).(*ssa.UnOp)
						if !ok || hl.Op != token.MUL {
							return false
						}
						fa, ok := hl.X.(*ssa.FieldAddr)
						if ok && statsStateTypes[typeKey(fa.X.Type())] {
							histIndex = ia.Index
							return true
						}
						return false
					})
				}
				var search map[*ssa.BasicBlock]bool
				for _, f := range dominatingFactsInstr(st) {
					ci, ok := f.cond.(ssa.Instruction)
					if !ok {
						continue
					}
					b2, ok := normFact(f).cond.(*ssa.BinOp)
					if !ok || b2.Op != token.EQL && b2.Op != token.NEQ || !fromHistory(b2.X) && !fromHistory(b2.Y) {
						continue
					}
					for _, body := range loops {
						if body[ci.Block()] && (search == nil || len(body) < len(search)) {
							search = body
						}
					}
				}
				if search == nil {
					return
				}
				sites++
				// newest first: the histories are appended to at the end and trimmed at the front (E4/K4), the search
				// stops at the first match, so the index of the element that is compared counts down — a walk from the
				// front answers with the oldest entry that shares the echoed middle bits
				if dir := s9WalkDirection(p, histIndex); dir > 0 {
					bad = append(bad, fmt.Sprintf("the search that ends at %s walks the history from its oldest entry on: of two entries with the same middle 32 bits the older one is measured against", p.instrPos(st)))
				}
				// the increment lies in the search loop's body exactly when control can flow from it back to the loop's
				// header: the match did not end the search
				back := func(b *ssa.BasicBlock) bool { return search[b] }
				if back(st.Block()) {
					bad = append(bad, fmt.Sprintf("%s is incremented at %s on a match and the search goes on", describeAddr(p, st.Addr), p.instrPos(st)))
				}
			})
			// S9 (what is measured): a duration obtained with time.Time.Sub and stored into the statistics under such a
			// match is the distance to the history entry that matched — the value the reply echoes — and not to something
			// else kept beside it: the formula is (arrival − delay) − time of the echoed timestamp.
			rtts := 0
			var badRtt []string
			instrsOf(fn, func(in ssa.Instruction) {
				st, ok := in.(*ssa.Store)
				if !ok || !throughStatsStruct(st.Addr, ss.pkgPath) {
					return
				}
				call, ok := st.Val.(*ssa.Call)
				if !ok || call.Call.StaticCallee() == nil || call.Call.StaticCallee().String() != "(time.Time).Sub" {
					return
				}
				for _, f := range dominatingFactsInstr(st) {
					b2, ok := normFact(f).cond.(*ssa.BinOp)
					if !ok || b2.Op != token.EQL && b2.Op != token.NEQ {
						continue
					}
					matched := map[string]bool{}
					s9HistoryLeaves(p, b2.X, "", matched, map[ssa.Value]bool{})
					s9HistoryLeaves(p, b2.Y, "", matched, map[ssa.Value]bool{})
					if len(matched) == 0 {
						continue
					}
					used := map[string]bool{}
					for _, a := range call.Call.Args {
						s9HistoryLeaves(p, a, "", used, map[ssa.Value]bool{})
					}
					rtts++
					hit := false
					for k := range used {
						if matched[k] {
							hit = true
						}
					}
					if !hit {
						badRtt = append(badRtt, fmt.Sprintf("%s is set at %s to a distance that is not taken from the history entry that matched the reply (matched: %s; measured from: %s)", describeAddr(p, st.Addr), p.instrPos(st), strings.Join(sortedKeys(matched), ", "), strings.Join(sortedKeys(used), ", ")))
					}
					break
				}
			})
			if rtts > 0 {
				k2 := funcKey(fn) + ":measured-from-match"
				if len(badRtt) > 0 {
					sort.Strings(badRtt)
					o.bad("S9", k2, strings.Fields(strings.SplitN(badRtt[0], " at ", 2)[1])[0], strings.Join(dedupe(badRtt), "; ")+": the round-trip time is (arrival − delay) − the time the echoed timestamp names; measured from anything else it carries the skew between the two")
				} else {
					o.ok("S9", k2, p.Pos(fn.Pos()), fmt.Sprintf("%d duration(s) stored under a history match, each measured from the matched entry", rtts))
				}
			}
			if sites == 0 {
				continue
			}
			n++
			key := funcKey(fn) + ":one-measurement"
			if len(bad) > 0 {
				sort.Strings(bad)
				o.bad("S9", key, strings.Fields(strings.SplitN(bad[0], " at ", 2)[1])[0], strings.Join(dedupe(bad), "; ")+": a history can hold the same middle-32-bit value more than once, and one reply is one measurement against the most recent of them")
			} else {
				o.ok("S9", key, p.Pos(fn.Pos()), fmt.Sprintf("%d counter(s) incremented on a match inside a search loop, each ending the search", sites))
			}
		}
	}
	o.ok("S9", "inspected", "-", fmt.Sprintf("%d recording function(s) with a search loop that books a measurement", n))
}

// s9HistoryLeaves collects, field-sensitively, the elements of the recorder's histories a value is computed from:
// "history[index].path". It follows arithmetic, conversions, calls' arguments, struct field selection and local copies.
func s9HistoryLeaves(p *Prog, v ssa.Value, path string, out map[string]bool, seen map[ssa.Value]bool) {
	if v == nil || len(seen) > 400 {
		return
	}
	if path == "" {
		if seen[v] {
			return
		}
		seen[v] = true
	}
	histElem := func(a ssa.Value) (string, bool) {
		ia, ok := a.(*ssa.IndexAddr)
		if !ok {
			return "", false
		}
		hl, ok := p.origin(ia.X).(*ssa.UnOp)
		if !ok || hl.Op != token.MUL {
			return "", false
		}
		fa, ok := hl.X.(*ssa.FieldAddr)
		if !ok || !statsStateTypes[typeKey(fa.X.Type())] {
			return "", false
		}
		return fieldKeyAddr(fa) + "[" + ia.Index.Name() + "]", true
	}
	switch x := v.(type) {
	case *ssa.Field:
		s9HistoryLeaves(p, x.X, fmt.Sprintf(".%d%s", x.Field, path), out, seen)
	case *ssa.UnOp:
		if x.Op != token.MUL {
			s9HistoryLeaves(p, x.X, "", out, seen)
			return
		}
		if k, ok := histElem(x.X); ok {
			out[k+path] = true
			return
		}
		switch a := x.X.(type) {
		case *ssa.FieldAddr:
			if k, ok := histElem(a.X); ok {
				out[fmt.Sprintf("%s.%d%s", k, a.Field, path)] = true
				return
			}
			if al, ok := a.X.(*ssa.Alloc); ok {
				for _, st := range p.storesInto(al) {
					if st.Addr == ssa.Value(al) {
						s9HistoryLeaves(p, st.Val, fmt.Sprintf(".%d%s", a.Field, path), out, seen)
					} else if fa2, ok := st.Addr.(*ssa.FieldAddr); ok && fa2.X == a.X && fa2.Field == a.Field {
						s9HistoryLeaves(p, st.Val, path, out, seen)
					}
				}
			}
		case *ssa.Alloc:
			for _, st := range p.storesInto(a) {
				if st.Addr == ssa.Value(a) {
					s9HistoryLeaves(p, st.Val, path, out, seen)
				}
			}
		}
	case *ssa.BinOp:
		s9HistoryLeaves(p, x.X, "", out, seen)
		s9HistoryLeaves(p, x.Y, "", out, seen)
	case *ssa.Convert:
		s9HistoryLeaves(p, x.X, "", out, seen)
	case *ssa.ChangeType:
		s9HistoryLeaves(p, x.X, path, out, seen)
	case *ssa.Phi:
		for _, e := range x.Edges {
			s9HistoryLeaves(p, e, path, out, seen)
		}
	case *ssa.Extract:
		s9HistoryLeaves(p, x.Tuple, "", out, seen)
	case *ssa.Call:
		for _, a := range x.Call.Args {
			s9HistoryLeaves(p, a, "", out, seen)
		}
	}
}

// S8 (once per packet) — the message counters of the statistics (nackCount, pliCount, firCount: "the total number of
// … packets", webrtc-stats) count RTCP packets. In a recording function, a `…Count++` on a field of the statistics
// that is dominated by the type switch over the members of a compound packet sits in no loop that the switch itself
// is not in: a loop over the packet's entries (a FIR's FCI list, a NACK's pairs) that increments the counter books one
// packet as many times as it has matching entries.
func s8OncePerPacket(p *Prog, o *obls) {
	for _, ss := range statsSpecs {
		statsStateTypes[ss.state] = true
	}
	n := 0
	for _, ss := range statsSpecs {
		if p.Fixture != strings.HasPrefix(ss.recorder, "fixtures/") {
			continue
		}
		for _, fn := range p.Funcs {
			if fn.Blocks == nil || fn.Pkg == nil || relPkg(fn.Pkg.Pkg.Path()) != ss.pkgPath {
				continue
			}
			loops := naturalLoops(fn)
			if len(loops) == 0 {
				continue
			}
			var bad []string
			sites := 0
			instrsOf(fn, func(in ssa.Instruction) {
				st, ok := in.(*ssa.Store)
				if !ok || !throughStatsStruct(st.Addr, ss.pkgPath) {
					return
				}
				fa, ok := st.Addr.(*ssa.FieldAddr)
				if !ok || !strings.HasSuffix(fieldName(fieldKeyAddr(fa)), "Count") {
					return
				}
				bo, ok := st.Val.(*ssa.BinOp)
				if !ok || bo.Op != token.ADD || !isConstInt(bo.Y, 1) {
					return
				}
				// the switch over the compound's members: the nearest dominating type assertion on an interface value
				var sw *ssa.BasicBlock
				for b := st.Block(); b != nil && sw == nil; b = b.Idom() {
					for _, i2 := range b.Instrs {
						if ta, ok := i2.(*ssa.TypeAssert); ok {
							if _, isIface := ta.X.Type().Underlying().(*types.Interface); isIface {
								sw = b
							}
						}
					}
				}
				if sw == nil {
					return
				}
				sites++
				for _, body := range loops {
					if body[st.Block()] && !body[sw] {
						bad = append(bad, fmt.Sprintf("%s is incremented at %s inside a loop over the parts of one packet", describeAddr(p, st.Addr), p.instrPos(st)))
					}
				}
			})
			if sites == 0 {
				continue
			}
			n++
			key := funcKey(fn) + ":once-per-packet"
			if len(bad) > 0 {
				sort.Strings(bad)
				o.bad("S8", key, strings.Fields(strings.SplitN(bad[0], " at ", 2)[1])[0], strings.Join(dedupe(bad), "; ")+": the counter is a number of packets (webrtc-stats), a packet with several matching entries is booked several times")
			} else {
				o.ok("S8", key, p.Pos(fn.Pos()), fmt.Sprintf("%d message counter(s) advanced under the switch over the compound's members, none in a loop nested in it", sites))
			}
		}
	}
	o.ok("S8", "once-per-packet-inspected", "-", fmt.Sprintf("%d recording function(s) with message counters", n))
}

// s9WalkDirection: +1 when the index is a loop variable that counts up (i+1 on the back edge, a range loop), -1 when it
// counts down, 0 when it cannot be told.
func s9WalkDirection(p *Prog, idx ssa.Value) int {
	if idx == nil {
		return 0
	}
	phi, ok := p.origin(idx).(*ssa.Phi)
	if !ok {
		// a range loop's index is phi+1
		if bo, isBo := p.origin(idx).(*ssa.BinOp); isBo && bo.Op == token.ADD && isConstInt(bo.Y, 1) {
			if _, isPhi := bo.X.(*ssa.Phi); isPhi {
				return 1
			}
		}
		return 0
	}
	for _, e := range phi.Edges {
		if bo, ok := e.(*ssa.BinOp); ok && bo.X == ssa.Value(phi) && isConstInt(bo.Y, 1) {
			switch bo.Op {
			case token.ADD:
				return 1
			case token.SUB:
				return -1
			}
		}
	}
	return 0
}
