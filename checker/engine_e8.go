package main

import (
	"fmt"
	"go/token"
	"go/types"
	"sort"
	"strings"

	"golang.org/x/tools/go/ssa"
)

// E8 — nothing is left below the cursor. A log kept as a map from sequence numbers to records, with an integer cursor
// beside it below which the log is neither read nor written (the inserting function turns numbers below the cursor
// away), holds only what lies at or above the cursor: whatever moves the cursor forward removes what it moves past.
// Every store to the cursor outside construction and outside the first-packet branch is preceded in its function by
// the removal: a delete on the map that dominates the store, or a sweep (a range over the map that deletes) whose
// loop head dominates it. A cursor that jumps — past losses that are given up on, to the newest packets a report can
// hold — without the sweep leaves records that nothing will ever read or delete.
func init() {
	registerEngine("E8", []string{"E8"}, runEngineE8)
}

func runEngineE8(p *Prog, o *obls) {
	type pair struct {
		cursor, log string
	}
	pairs := map[pair]bool{}
	intField := func(v ssa.Value) (string, string) { // (field key, owner type key) of an integer field load
		u, ok := p.origin(v).(*ssa.UnOp)
		if !ok || u.Op != token.MUL {
			return "", ""
		}
		fa, ok := u.X.(*ssa.FieldAddr)
		if !ok {
			return "", ""
		}
		if b, ok := deref(fa.Type()).Underlying().(*types.Basic); !ok || b.Info()&types.IsInteger == 0 {
			return "", ""
		}
		return fieldKeyAddr(fa), typeKey(deref(fa.X.Type()))
	}
	mapField := func(v ssa.Value) (string, string) {
		u, ok := p.origin(v).(*ssa.UnOp)
		if !ok || u.Op != token.MUL {
			return "", ""
		}
		fa, ok := u.X.(*ssa.FieldAddr)
		if !ok {
			return "", ""
		}
		if _, ok := deref(fa.Type()).Underlying().(*types.Map); !ok {
			return "", ""
		}
		return fieldKeyAddr(fa), typeKey(deref(fa.X.Type()))
	}
	// (1) cursor/log pairs: a function that inserts into the map under a key it has compared with the integer field
	for _, fn := range p.Funcs {
		if fn.Blocks == nil || !p.InUniverse(fn) {
			continue
		}
		instrsOf(fn, func(in ssa.Instruction) {
			mu, ok := in.(*ssa.MapUpdate)
			if !ok {
				return
			}
			lk, lt := mapField(mu.Map)
			if lk == "" {
				return
			}
			kk := p.pureKey(mu.Key)
			for _, f := range dominatingFactsInstr(mu) {
				bo, ok := normFact(f).cond.(*ssa.BinOp)
				if !ok {
					continue
				}
				switch bo.Op {
				case token.LSS, token.LEQ, token.GTR, token.GEQ:
				default:
					continue
				}
				for _, pr := range [][2]ssa.Value{{bo.X, bo.Y}, {bo.Y, bo.X}} {
					ck, ct := intField(pr[1])
					if ck != "" && ct == lt && p.pureKey(pr[0]) == kk {
						pairs[pair{ck, lk}] = true
					}
				}
			}
		})
	}
	var ps []pair
	for pr := range pairs {
		ps = append(ps, pr)
	}
	sort.Slice(ps, func(i, j int) bool { return ps[i].cursor < ps[j].cursor })
	for _, pr := range ps {
		var bad []string
		n := 0
		owner := pr.cursor[:strings.LastIndex(pr.cursor, ".")]
		for _, fn := range p.Funcs {
			if fn.Blocks == nil || !p.InUniverse(fn) || isConstructor(p, fn) {
				continue
			}
			var pdom map[*ssa.BasicBlock]map[*ssa.BasicBlock]bool
			// removals in this function: delete(log, k); and, as whole sweeps, clear(log), maps.DeleteFunc(log, …) and calls
			// of repository helpers on the same object that remove from the log (dropBefore(n))
			var deletes, sweeps []*ssa.Call
			instrsOf(fn, func(in ssa.Instruction) {
				c, ok := in.(*ssa.Call)
				if !ok {
					return
				}
				if builtinName(&c.Call) == "delete" && len(c.Call.Args) == 2 {
					if lk, _ := mapField(c.Call.Args[0]); lk == pr.log {
						deletes = append(deletes, c)
					}
					return
				}
				if e8Removes(p, c, pr.log, mapField, 0) {
					sweeps = append(sweeps, c)
				}
			})
			instrsOf(fn, func(in ssa.Instruction) {
				st, ok := in.(*ssa.Store)
				if !ok {
					return
				}
				fa, ok := st.Addr.(*ssa.FieldAddr)
				if !ok || fieldKeyAddr(fa) != pr.cursor || freshlyBuilt(p, fa, fn) {
					return
				}
				if _, isC := st.Val.(*ssa.Const); isC {
					return
				}
				// the first-packet branch: decided by a boolean field of the same object that the branch sets
				if pdom == nil {
					pdom = postDominators(fn)
				}
				first := false
				for cb := range transitiveControlDeps(fn, pdom, st.Block()) {
					c := ifCond(cb)
					if c == nil {
						continue
					}
					c = normFact(condFact{c, true}).cond
					u, ok := p.origin(c).(*ssa.UnOp)
					if !ok || u.Op != token.MUL {
						continue
					}
					if cfa, ok := u.X.(*ssa.FieldAddr); ok && strings.HasPrefix(fieldKeyAddr(cfa), owner+".") {
						if b, isB := deref(cfa.Type()).Underlying().(*types.Basic); isB && b.Kind() == types.Bool {
							first = true
						}
					}
				}
				if first {
					return
				}
				n++
				swept := false
				for _, c := range sweeps {
					if instrDominates(c, st) {
						swept = true
					}
				}
				for _, d := range deletes {
					if instrDominates(d, st) {
						swept = true
					}
					// a sweep: the delete sits in a range over the log whose loop head dominates the store
					for _, body := range naturalLoops(fn) {
						if !body[d.Block()] {
							continue
						}
						for b := range body {
							for _, i2 := range b.Instrs {
								if nx, ok := i2.(*ssa.Next); ok {
									if rg, ok := nx.Iter.(*ssa.Range); ok {
										if lk, _ := mapField(rg.X); lk == pr.log && (b == st.Block() || b.Dominates(st.Block())) {
											swept = true
										}
									}
								}
							}
						}
					}
				}
				if !swept {
					bad = append(bad, fmt.Sprintf("the cursor is moved at %s (in %s) without a removal from %s on the way", p.instrPos(st), funcKey(fn), fieldName(pr.log)))
				}
			})
		}
		if n == 0 {
			continue
		}
		if len(bad) > 0 {
			sort.Strings(bad)
			o.bad("E8", pr.cursor, strings.Fields(strings.SplitN(bad[0], " moved at ", 2)[1])[0], strings.Join(dedupe(bad), "; ")+": the records it moves past are below the cursor, where nothing reads or deletes them any more")
		} else {
			o.ok("E8", pr.cursor, "-", fmt.Sprintf("%d store(s) that move the cursor, each after a delete on %s or a sweep of it", n, fieldName(pr.log)))
		}
	}
	o.ok("E8", "inspected", "-", fmt.Sprintf("%d cursor(s) beside a keyed log", len(ps)))
}

// e8Removes: the call removes entries from the log — clear(log), maps.DeleteFunc(log, …), or a repository function
// (to depth two) that contains a delete on the log, one of those, or a call of such a function.
func e8Removes(p *Prog, c *ssa.Call, logKey string, mapField func(ssa.Value) (string, string), depth int) bool {
	if builtinName(&c.Call) == "clear" && len(c.Call.Args) == 1 {
		lk, _ := mapField(c.Call.Args[0])
		return lk == logKey
	}
	sc := c.Call.StaticCallee()
	if sc == nil {
		return false
	}
	if o := sc.Origin(); o != nil {
		if o.Pkg != nil && o.Pkg.Pkg.Path() == "maps" && o.Name() == "DeleteFunc" && len(c.Call.Args) > 0 {
			lk, _ := mapField(c.Call.Args[0])
			return lk == logKey
		}
	}
	if !p.InUniverse(sc) || sc.Blocks == nil || depth > 1 {
		return false
	}
	found := false
	instrsOf(sc, func(in ssa.Instruction) {
		c2, ok := in.(*ssa.Call)
		if !ok || found {
			return
		}
		if builtinName(&c2.Call) == "delete" && len(c2.Call.Args) == 2 {
			if lk, _ := mapField(c2.Call.Args[0]); lk == logKey {
				found = true
			}
			return
		}
		if e8Removes(p, c2, logKey, mapField, depth+1) {
			found = true
		}
	})
	return found
}
