package main

// Engine N — fields that are reset to nil after construction.
//
//   N1  nil maps. Reading from, ranging over and deleting from a nil map are fine; assigning to an entry panics. A map
//       field that some function assigns entries to must therefore never be set to nil once the object is built (a
//       Close that "drops" the table with `= nil` instead of a fresh map turns the next Bind into a panic) — unless
//       every entry assignment is dominated by a test of the field against nil or by a re-make of it.
//   N2  nil-able pointers. When a pointer field is set to nil after construction (released on Unbind/Close) and at
//       least one place tests it against nil before using it — the code itself states that the field may be nil —
//       then every other dereference of the field (a field access or method call through it) must be dominated by
//       such a test too, or lie in the critical section (same block, after) of the store that made it non-nil. One
//       site that checks and a sibling that does not contradict each other; the unchecked one panics on the
//       interleaving the check was written for.

import (
	"fmt"
	"go/token"
	"go/types"
	"sort"
	"strings"

	"golang.org/x/tools/go/ssa"
)

func init() {
	registerEngine("N", []string{"N1", "N2"}, runEngineN)
}

func runEngineN(p *Prog, o *obls) {
	type site struct {
		in ssa.Instruction
		fn *ssa.Function
	}
	nilStores := map[*types.Var][]site{}
	invokes := map[*types.Var][]site{}
	mapUpdates := map[*types.Var][]site{}
	nilChecks := map[*types.Var][]site{}
	derefs := map[*types.Var][]site{}
	fieldOfLoad := func(v ssa.Value) (*types.Var, *ssa.FieldAddr) {
		u, ok := p.origin(v).(*ssa.UnOp)
		if !ok || u.Op != token.MUL {
			return nil, nil
		}
		fa, ok := u.X.(*ssa.FieldAddr)
		if !ok {
			return nil, nil
		}
		return fieldOfAddr(fa), fa
	}
	for _, fn := range p.Funcs {
		if isOptionClosure(fn) {
			continue
		}
		instrsOf(fn, func(in ssa.Instruction) {
			switch x := in.(type) {
			case *ssa.Store:
				fa, ok := x.Addr.(*ssa.FieldAddr)
				if !ok || !isNilConst(x.Val) || freshlyBuilt(p, fa, fn) {
					return
				}
				if fv := fieldOfAddr(fa); fv != nil {
					nilStores[fv] = append(nilStores[fv], site{in, fn})
				}
			case *ssa.MapUpdate:
				if fv, _ := fieldOfLoad(x.Map); fv != nil {
					mapUpdates[fv] = append(mapUpdates[fv], site{in, fn})
				}
			case *ssa.BinOp:
				if x.Op != token.EQL && x.Op != token.NEQ {
					return
				}
				var other ssa.Value
				if isNilConst(x.Y) {
					other = x.X
				} else if isNilConst(x.X) {
					other = x.Y
				} else {
					return
				}
				if fv, _ := fieldOfLoad(other); fv != nil {
					nilChecks[fv] = append(nilChecks[fv], site{in, fn})
				}
			case *ssa.FieldAddr:
				if fv, _ := fieldOfLoad(x.X); fv != nil {
					derefs[fv] = append(derefs[fv], site{in, fn})
				}
			case ssa.CallInstruction:
				cc := x.Common()
				if cc.IsInvoke() {
					if fv, _ := fieldOfLoad(cc.Value); fv != nil {
						invokes[fv] = append(invokes[fv], site{in, fn})
					}
				}
				if sc := cc.StaticCallee(); sc != nil && sc.Signature.Recv() != nil && len(cc.Args) > 0 {
					if _, isPtr := sc.Signature.Recv().Type().(*types.Pointer); isPtr {
						if fv, _ := fieldOfLoad(cc.Args[0]); fv != nil {
							derefs[fv] = append(derefs[fv], site{in, fn})
						}
					}
				}
			}
		})
	}
	fieldName := func(fv *types.Var) string {
		for _, fn := range p.Funcs {
			_ = fn
			break
		}
		return fv.Name()
	}
	_ = fieldName
	// guardedAt: a dominating fact says the field (same pure expression) is non-nil at `at`, or it was assigned a
	// non-nil value earlier in the same block
	guardedAt := func(at ssa.Instruction, loaded ssa.Value) bool {
		key := p.pureKey(loaded)
		for _, f := range dominatingFactsInstr(at) {
			f = normFact(f)
			bo, ok := f.cond.(*ssa.BinOp)
			if !ok || (bo.Op != token.NEQ && bo.Op != token.EQL) {
				continue
			}
			var other ssa.Value
			if isNilConst(bo.Y) {
				other = bo.X
			} else if isNilConst(bo.X) {
				other = bo.Y
			} else {
				continue
			}
			if p.pureKey(other) == key && (bo.Op == token.NEQ) == f.truth {
				return true
			}
		}
		_, fa := fieldOfLoad(loaded)
		if fa == nil {
			return false
		}
		return nonNilOnEveryPath(p, at, key, p.pureKey(fa))
	}
	var fields []*types.Var
	seen := map[*types.Var]bool{}
	for fv := range nilStores {
		if !seen[fv] {
			seen[fv] = true
			fields = append(fields, fv)
		}
	}
	sort.Slice(fields, func(i, j int) bool { return fields[i].Pos() < fields[j].Pos() })
	n1, n2 := 0, 0
	for _, fv := range fields {
		ns := nilStores[fv]
		fk := fieldKeyAddr(ns[0].in.(*ssa.Store).Addr.(*ssa.FieldAddr))
		switch fv.Type().Underlying().(type) {
		case *types.Map:
			n1++
			var bad []string
			for _, mu := range mapUpdates[fv] {
				if !guardedAt(mu.in, mu.in.(*ssa.MapUpdate).Map) {
					bad = append(bad, fmt.Sprintf("the entry assignment at %s (in %s)", p.instrPos(mu.in), funcKey(mu.fn)))
				}
			}
			if len(bad) > 0 {
				o.bad("N1", fk, p.instrPos(ns[0].in), fmt.Sprintf("the map is set to nil at %s, but %s is not preceded by a test of the map against nil or a re-make: assigning to an entry of a nil map panics", p.instrPos(ns[0].in), strings.Join(dedupe(bad), ", ")))
			} else {
				o.ok("N1", fk, p.instrPos(ns[0].in), fmt.Sprintf("set to nil after construction; %d entry assignment(s), each after a nil test or a re-make", len(mapUpdates[fv])))
			}
		case *types.Pointer:
			if len(nilChecks[fv]) == 0 {
				continue // nothing in the code says the field may be nil where it is used: not this rule's evidence
			}
			n2++
			var bad []string
			for _, d := range derefs[fv] {
				var loaded ssa.Value
				switch x := d.in.(type) {
				case *ssa.FieldAddr:
					loaded = x.X
				case ssa.CallInstruction:
					loaded = x.Common().Args[0]
				}
				if loaded == nil || guardedAt(d.in, loaded) {
					continue
				}
				// a helper every caller of which has established non-nil
				if _, fa := fieldOfLoad(loaded); fa != nil {
					if par, isPar := p.origin(addrRoot(fa)).(*ssa.Parameter); isPar {
						k := p.pureKey(loaded)
						ok := p.allCallersSatisfy(d.fn, func(s ssa.CallInstruction) bool {
							args := s.Common().Args
							for i, q := range d.fn.Params {
								if q == par && i < len(args) {
									kk := strings.ReplaceAll(k, p.pureKey(par), p.pureKey(args[i]))
									for _, f := range dominatingFactsInstr(s) {
										f = normFact(f)
										if bo, ok := f.cond.(*ssa.BinOp); ok && (bo.Op == token.NEQ) == f.truth && (isNilConst(bo.Y) && p.pureKey(bo.X) == kk || isNilConst(bo.X) && p.pureKey(bo.Y) == kk) {
											return true
										}
									}
								}
							}
							return false
						}, 2)
						if ok {
							continue
						}
					}
				}
				bad = append(bad, fmt.Sprintf("%s (in %s)", p.instrPos(d.in), funcKey(d.fn)))
			}
			if len(bad) > 0 {
				sort.Strings(bad)
				o.bad("N2", fk, p.instrPos(ns[0].in), fmt.Sprintf("the field is set to nil at %s and tested against nil at %s, but is dereferenced without such a test at %s: that use panics when it runs after the reset", p.instrPos(ns[0].in), p.instrPos(nilChecks[fv][0].in), strings.Join(dedupe(bad), ", ")))
			} else {
				o.ok("N2", fk, p.instrPos(ns[0].in), fmt.Sprintf("set to nil after construction and tested at %d place(s); all %d dereference(s) follow a test", len(nilChecks[fv]), len(derefs[fv])))
			}
		}
	}
	// N2, lifecycle form: what Unbind or Close set to nil, the packet path does not use untested. The writer or reader
	// a Bind call returned stays callable after Unbind (a write in flight, a straggler) and works on the same per-stream
	// object: a pointer or interface field that a lifecycle method resets "to release it" is dereferenced by the next
	// packet — a nil-pointer panic in the caller's Write, with the stream's mutex still held. For every pointer or
	// interface field assigned nil in a method named Unbind*/Close*/Stop*: every use of it (field access through it,
	// method call on it) in a per-packet closure or a function reachable from one follows a nil test — whether or not
	// anything else in the code ever tests it.
	{
		closures, _ := p.PktClosures()
		var roots []*ssa.Function
		for _, c := range closures {
			roots = append(roots, c.Fn)
		}
		onPacketPath := reachableFuncs(p, roots, false)
		for _, fv := range fields {
			switch fv.Type().Underlying().(type) {
			case *types.Pointer, *types.Interface:
			default:
				continue
			}
			var resetAt []string
			for _, ns := range nilStores[fv] {
				top := ns.fn
				for top.Parent() != nil {
					top = top.Parent()
				}
				if nm := top.Name(); strings.HasPrefix(nm, "Unbind") || strings.HasPrefix(nm, "Close") || strings.HasPrefix(nm, "Stop") {
					resetAt = append(resetAt, fmt.Sprintf("%s (in %s)", p.instrPos(ns.in), shortCallee(funcKey(top))))
				}
			}
			if len(resetAt) == 0 {
				continue
			}
			if _, isPtr := fv.Type().Underlying().(*types.Pointer); isPtr && len(nilChecks[fv]) > 0 {
				continue // judged above
			}
			var bad []string
			uses := 0
			for _, d := range append(append([]site{}, derefs[fv]...), invokes[fv]...) {
				if !onPacketPath[d.fn] {
					continue
				}
				uses++
				var loaded ssa.Value
				switch x := d.in.(type) {
				case *ssa.FieldAddr:
					loaded = x.X
				case ssa.CallInstruction:
					if x.Common().IsInvoke() {
						loaded = x.Common().Value
					} else {
						loaded = x.Common().Args[0]
					}
				}
				if loaded == nil || guardedAt(d.in, loaded) {
					continue
				}
				bad = append(bad, fmt.Sprintf("%s (in %s)", p.instrPos(d.in), shortCallee(funcKey(d.fn))))
			}
			fk := fieldKeyAddr(nilStores[fv][0].in.(*ssa.Store).Addr.(*ssa.FieldAddr)) + ":after-unbind"
			if len(bad) > 0 {
				sort.Strings(bad)
				sort.Strings(resetAt)
				o.bad("N2", fk, strings.Fields(resetAt[0])[0], fmt.Sprintf("the field is set to nil at %s and used on the packet path without a nil test at %s: a packet written or read through the binding after that lifecycle call panics in the caller", strings.Join(dedupe(resetAt), ", "), strings.Join(dedupe(bad), ", ")))
			} else if uses > 0 {
				o.ok("N2", fk, strings.Fields(resetAt[0])[0], fmt.Sprintf("set to nil by a lifecycle method; its %d use(s) on the packet path each follow a nil test", uses))
			}
		}
	}
	o.ok("N1", "inspected", "-", fmt.Sprintf("%d map field(s) that are set to nil after construction", n1))
	o.ok("N2", "inspected", "-", fmt.Sprintf("%d pointer field(s) that are set to nil after construction and tested against nil somewhere", n2))
}

// nonNilOnEveryPath: a forward must-analysis of "the field (pure key of its loaded value / of its address) is known
// non-nil": established by the non-nil edge of a test against nil and by a store of a non-nil value, destroyed by a store
// of nil; paths meet with AND. Covers `if f.m == nil { f.m = make(…) }; f.m[k] = v`.
func nonNilOnEveryPath(p *Prog, at ssa.Instruction, loadKey, addrKey string) bool {
	fn := at.Parent()
	in := map[*ssa.BasicBlock]bool{}
	have := map[*ssa.BasicBlock]bool{fn.Blocks[0]: true}
	out := map[*ssa.BasicBlock]bool{}
	step := func(b *ssa.BasicBlock, st bool, stop ssa.Instruction) bool {
		for _, ins := range b.Instrs {
			if ins == stop {
				return st
			}
			if s, ok := ins.(*ssa.Store); ok {
				if fa, ok := s.Addr.(*ssa.FieldAddr); ok && p.pureKey(fa) == addrKey {
					st = !isNilConst(s.Val)
				}
			}
		}
		return st
	}
	edge := func(pr, b *ssa.BasicBlock) bool {
		st := out[pr]
		c := ifCond(pr)
		if c == nil || len(pr.Succs) != 2 || pr.Succs[0] == pr.Succs[1] {
			return st
		}
		f := normFact(condFact{c, pr.Succs[0] == b})
		bo, ok := f.cond.(*ssa.BinOp)
		if !ok || (bo.Op != token.NEQ && bo.Op != token.EQL) {
			return st
		}
		var other ssa.Value
		if isNilConst(bo.Y) {
			other = bo.X
		} else if isNilConst(bo.X) {
			other = bo.Y
		} else {
			return st
		}
		if p.pureKey(other) == loadKey && (bo.Op == token.NEQ) == f.truth {
			return true
		}
		return st
	}
	for iter := 0; iter < 50; iter++ {
		changed := false
		for _, b := range fn.Blocks {
			if b != fn.Blocks[0] {
				v, got := true, false
				for _, pr := range b.Preds {
					if !have[pr] {
						continue
					}
					got = true
					if !edge(pr, b) {
						v = false
					}
				}
				if !got {
					continue
				}
				if !have[b] || in[b] != v {
					in[b], have[b] = v, true
					changed = true
				}
			}
			o := step(b, in[b], nil)
			if o != out[b] {
				out[b] = o
				changed = true
			}
		}
		if !changed {
			break
		}
	}
	if !have[at.Block()] {
		return false
	}
	return step(at.Block(), in[at.Block()], at)
}
