#!/bin/bash
# usage: seed_eval.sh <seed-id> [<agent-worktree>]
#   1. (if a worktree is given) imports <worktree>/SEEDED into /verif/seeded/<seed-id>/
#   2. confirms the seeded change in a fresh scratch worktree of /repo HEAD: suite passes with it, demo fails with it and
#      passes without it
#   3. scans every claimed property on that scratch worktree (HEAD + the change) and records which rules fired
. /verif/env.sh
id=$1; wt=$2
dir=/verif/seeded/$id
if [ -n "$wt" ]; then
  mkdir -p $dir && cp $wt/SEEDED/patch.diff $wt/SEEDED/meta.json $dir/ && { cp $wt/SEEDED/demo_test.go.txt $dir/demo_test.go.txt 2>/dev/null || cp $wt/SEEDED/demo_test.go $dir/demo_test.go.txt; } || exit 2
fi
[ -f $dir/patch.diff ] || { echo "no $dir/patch.diff"; exit 2; }
demo_cmd=$(jq -r .demo_cmd $dir/meta.json)
demo_dir=$(head -3 $dir/demo_test.go.txt | grep -o '\./[A-Za-z0-9_/]*' | head -1); [ -z "$demo_dir" ] && demo_dir=.
scratch=$(mktemp -d /tmp/seedeval.XXXX)
git -C /repo worktree add -q --detach $scratch/wt HEAD || exit 2
res=$dir/confirm.txt; : > $res
(
  cd $scratch/wt
  demo_pkg=$(grep -m1 -o 'go test[^`"]*' $dir/demo_test.go.txt | grep -o '\./[A-Za-z0-9_/.]*' | tail -1); [ -z "$demo_pkg" ] && demo_pkg=./
  demo_pkg=${demo_pkg%/}; [ "$demo_pkg" = "." ] && demo_pkg=./
  cp $dir/demo_test.go.txt $demo_pkg/zz_seeded_demo_test.go
  run=$(grep -m1 -o '\-run [A-Za-z0-9_|^$]*' $dir/demo_test.go.txt | head -1); race=$(grep -m1 -o '\-race' $dir/demo_test.go.txt | head -1)
  echo "demo: go test $race -count=1 $run $demo_pkg" >> $res
  timeout 300 go test $race -count=1 $run $demo_pkg > $scratch/demo_without.log 2>&1; echo "demo_without_change_exit=$?" >> $res
  if ! git apply --check $dir/patch.diff 2>>$res; then echo "patch_applies=no" >> $res; exit 0; fi
  git apply $dir/patch.diff; echo "patch_applies=yes" >> $res
  go build ./... >> $res 2>&1; echo "build_exit=$?" >> $res
  go vet ./... > $scratch/vet.log 2>&1; echo "vet_exit=$?" >> $res
  timeout 300 go test $race -count=1 $run $demo_pkg > $scratch/demo_with.log 2>&1; echo "demo_with_change_exit=$?" >> $res
  rm $demo_pkg/zz_seeded_demo_test.go
  timeout 600 go test -count=1 ./... > $scratch/suite.log 2>&1; echo "suite_with_change_exit=$?" >> $res
  grep -c '^ok' $scratch/suite.log | sed 's/^/suite_ok_packages=/' >> $res
)
# scan every claimed property on the scratch worktree (HEAD + the seeded change, demo removed) in one load
if grep -q patch_applies=yes $res; then
  (cd /verif/checker && go build -o /verif/bin/ivcheck .) || exit 2
  /verif/bin/ivcheck -p scan -repo $scratch/wt > $scratch/scan.txt 2>&1
  python3 /verif/scan2checks.py $scratch/scan.txt $dir
fi
git -C /repo worktree remove --force $scratch/wt; rm -rf $scratch
cat $res
echo "--- checks that fired:"; cut -c1-300 $dir/checks.txt
