#!/usr/bin/env python3
"""Regenerates the three generated tables of DESIGN.md §10 (between <!-- NAME --> markers)."""
import json,glob,os,subprocess,re
k=json.load(open('/verif/known_findings.json'))
log=subprocess.run(['git','-C','/repo','log','--format=%h %s','--reverse'],capture_output=True,text=True).stdout.strip().split('\n')
rows=["| commit | repair | rule | properties |","|--------|--------|------|------------|"]
for l in log:
    h,s=l.split(' ',1)
    if not s.startswith('fix:'): continue
    ks=[x for x in k if x.get('commit')==h]
    rows.append(f"| `{h}` | {s[5:]} | {', '.join(sorted({x['rule'] for x in ks})) or '–'} | {', '.join(sorted({p for x in ks for p in x['properties']})) or '–'} |")
fix='\n'.join(rows)
known='\n'.join(["| key | properties | what fails |","|-----|------------|------------|"]+[f"| `{x['key']}` | {', '.join(x['properties'])} | {x['what']} |" for x in k if x['status']=='known'])
srows=["| id | property | change | caught by (property/rule) |","|----|----------|--------|---------------------------|"]
n=det=0
for d in sorted(glob.glob('/verif/seeded/*/')):
    m=json.load(open(d+'meta.json')); sid=os.path.basename(d.rstrip('/')); n+=1
    dd=sorted({f"{x['property']}/{x['rule']}" for x in m.get('detected_by',[])})
    det+=bool(dd)
    srows.append(f"| {sid} | {m['property']} | {m.get('summary','').replace('|','/')[:230]} | {', '.join(dd) or '**missed**'} |")
seeds='\n'.join(srows)
d=open('/verif/DESIGN.md').read()
for name,tab in (("FIXES",fix),("KNOWN",known),("SEEDS",seeds)):
    d=re.sub(rf"<!-- {name} -->.*?<!-- /{name} -->", lambda m: f"<!-- {name} -->\n{tab}\n<!-- /{name} -->", d, flags=re.S)
open('/verif/DESIGN.md','w').write(d)
print("seeds",n,"detected",det)
