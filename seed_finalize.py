#!/usr/bin/env python3
"""Folds confirm.txt / checks.txt (written by seed_eval.sh) into each seeded change's meta.json."""
import json, glob, os, re
for d in sorted(glob.glob('/verif/seeded/*/')):
    mp = d + 'meta.json'
    if not os.path.exists(mp) or not os.path.exists(d + 'confirm.txt'):
        continue
    meta = json.load(open(mp))
    conf = dict(l.strip().split('=', 1) for l in open(d + 'confirm.txt') if '=' in l and not l.startswith('demo:'))
    demo = [l.strip()[6:] for l in open(d + 'confirm.txt') if l.startswith('demo: ')]
    det, cur = [], None
    fired = {}
    if os.path.exists(d + 'checks.txt'):
        for l in open(d + 'checks.txt'):
            m = re.match(r'== (C\d+) exit=1', l)
            if m:
                cur = m.group(1); continue
            m = re.match(r'violated: ([A-Z]+\d*)\|(\S+)', l)
            if m and cur:
                fired.setdefault((cur, m.group(1)), m.group(2))
    det = [{"property": p, "rule": r, "construct": k} for (p, r), k in sorted(fired.items())]
    meta["breaks_property"] = meta.get("property")
    meta["confirmed_in_scratch_worktree"] = {
        "patch_applies_to_repo_head": conf.get("patch_applies") == "yes",
        "builds_and_vets": conf.get("build_exit") == "0" and conf.get("vet_exit") == "0",
        "existing_suite_passes_with_change": conf.get("suite_with_change_exit") == "0",
        "demo_fails_with_change": conf.get("demo_with_change_exit") not in (None, "0"),
        "demo_passes_without_change": conf.get("demo_without_change_exit") == "0",
        "what_was_run": ["/verif/seed_eval.sh " + os.path.basename(d.rstrip('/'))] + demo + ["go build ./... ; go vet ./... ; go test -count=1 ./... (with the change, demo removed)"],
    }
    meta["detected_by"] = det
    meta["detected"] = bool(det)
    json.dump(meta, open(mp, 'w'), indent=1)
    print(os.path.basename(d.rstrip('/')), meta["property"], "detected by", [(x["property"], x["rule"]) for x in det] or "NOTHING",
          "" if all(meta["confirmed_in_scratch_worktree"][k] for k in ["builds_and_vets","existing_suite_passes_with_change","demo_fails_with_change","demo_passes_without_change"]) else "  !! confirmation incomplete")
