#!/bin/bash
# usage: benign_eval.sh <id> [<worktree>] — applies a behaviour-preserving patch to /repo, runs every claimed check,
# restores /repo. Any exit!=0 is a false alarm of the checker.
. /verif/env.sh
id=$1; wt=$2; dir=/verif/benign/$id
if [ -n "$wt" ]; then mkdir -p $dir && cp $wt/BENIGN/patch.diff $wt/BENIGN/notes.md $dir/ || exit 2; fi
git -C /repo apply --check $dir/patch.diff || { echo "patch does not apply"; exit 2; }
git -C /repo apply $dir/patch.diff
: > $dir/alarms.txt
for p in $(jq -r '.checks[].property_id' /verif/MANIFEST.json); do
  out=$(/verif/run.sh $p quick 2>&1); ec=$?
  if [ $ec -ne 0 ]; then echo "== $p exit=$ec" >> $dir/alarms.txt; echo "$out" | grep -v KNOWN-FINDING | grep -v '^VIOLATION' | head -8 | cut -c1-420 >> $dir/alarms.txt; fi
done
git -C /repo checkout -- . ; git -C /repo clean -fdq -- . 2>/dev/null; git -C /repo status --short | head -3
echo "--- alarms on benign patch $id:"; cat $dir/alarms.txt
