#!/usr/bin/env python3
"""Regenerates /verif/MANIFEST.json from the table below. Run after adding a property to checker/props.go."""
import json

CLAIMED = {
 # id: (design_ref, technique, text, level_note)
 "C01": ("DESIGN.md §3 A,K; §4 C01",
         "custom go/ssa path analysis of every per-packet closure (forward-exactly-once, read/fail-clean, parameter immutability, read-buffer slicing) + structural loop rules on Chain/Registry",
         "Decides, for all paths of all per-packet closures and Chain methods, the structural clauses A0-A4,K1,K2 that are necessary for transparency; it does not decide byte equality at the downstream writer. Level 'other': a static necessary-condition check, not the behaviour itself.",
         "trusts go/types+go/ssa, CHA/VTA callee resolution, and the frozen classification of pion/rtp Header methods; concurrency between callers and option-dependent construction are not covered"),
 "C02": ("DESIGN.md §3 F,A4,D3; §4 C02",
         "dominating-guard analysis (path-class sensitive) for packet-derived indices, pooled-buffer copies, two-sided slices and parse results; channel-operation rule for wedging",
         "Decides necessary structural clauses F1-F4,A4,D3 for all paths of all library functions: every index/copy/slice whose bound comes from a received packet is guarded, parse errors are honoured, no API path can block forever on an internal channel. It does not decide crash-freedom (arithmetic invariants, nil dereferences, third-party code).",
         "guards are recognised liberally (any comparison of the right operands); only constant guards of pooled-buffer copies are checked arithmetically; trusts pion/rtp's guarantee that a parsed header is no longer than its input"),
 "C10": ("DESIGN.md §3 C, D4; App. A",
         "lockset analysis (must-hold locksets, entry locksets from call sites) against a frozen guarded-field table; call-graph confinement; atomic-only fields; lock-order graph; wait-under-lock",
         "Decides a lock discipline (C1-C5, D4) for every access to ≈100 table fields on every path, independent of schedule: an unguarded or read-locked write is a race on some interleaving. It does not decide race freedom of memory outside the table or lost updates.",
         "guard and confinement tables are hand-confirmed and every row must resolve; locks are (type, field) abstractions; exported methods are assumed callable with no lock held"),
 "C11": ("DESIGN.md §3 D",
         "structural lifecycle rules over go statements, goroutine loops, API-path channel operations, lifecycle channels and per-SSRC containers (dominators, natural loops, call-graph reachability)",
         "Decides D1-D6 for all 14 go statements, all goroutine loops, all API-path channel operations and all per-stream containers: goroutines are accounted and stoppable, callers cannot be stranded, Unbind mirrors Bind. Necessary conditions of the lifecycle property; timing is not decided. Seven genuine violations are recorded as known findings (unaccounted goroutines, missing unbind).",
         "channel identity by field/make-site; Close methods are the only shutdown sources; user-supplied writers are assumed to return"),
 "C13": ("DESIGN.md §3 B, A3",
         "interprocedural forward taint (retention) from caller-owned header/payload/read buffer to escaping stores, channels, goroutines and containers; store-through-parameter analysis",
         "Decides for all 25 per-packet closures and the pacer Write methods that caller memory (or a shallow copy of it) never flows into anything that outlives the call except through a copying sanitiser, and is never written. Necessary structural condition; aliasing created inside pion/rtp is a stated limitation.",
         "deny-list of retaining library calls; pion/rtp Clone/Marshal are fresh; summaries over CHA/VTA callees"),
 "C04": ("DESIGN.md §3 F2,B,T,C1,A1,D5; §4 C04",
         "pooled-buffer copy bounds (path-class sensitive, constant arithmetic), retention taint, retain/release typestate by seeded path counting, lockset table rows of the responder",
         "Decides the clauses that make the stored copy equal what was sent and keep pooled buffers alive while referenced: bounded copies incl. RTX offset, deep copies only, exactly-once release protocol, lock discipline, forward-once. Does not decide ring-window arithmetic or RTX field values.",
         "refcount protocol table (Get/Retain/Release, slots field) is frozen; RTPBuffer's 'not started ⇒ all slots empty' invariant is assumed for the first store"),
 "C12": ("DESIGN.md §3 E, D5; App. B",
         "growth/shrink pairing of container fields over the call graph (traffic-path reachability), dead-guard detection by whole-program store search, bind/unbind pairing",
         "Decides that every long-lived container that grows with traffic has a reachable, live shrink on a traffic path or is of a bounded kind, and that per-stream state is removed on unbind. Necessary condition only (a shrink that is not called often enough is not detected).",
         "owner lifetime is approximated by 'some struct field holds the owner type'; third-party containers are out of scope"),
 "C15": ("DESIGN.md §3 I, §4 C15",
         "SSA def-use and path-count rules on the TWCC header-extension closure (atomic fetch-and-add provenance, at most one allocation per path) plus atomic-only field rule and closure rules A0/A1/A3",
         "Decides the structural clauses from which gap-free unique numbering follows for every interleaving: one atomic Add(…,1) per packet whose result (not a second load) is written, then exactly one forward. Not decided: numbers consumed when SetExtension fails.",
         "sync/atomic semantics; uint32→uint16 truncation of consecutive integers is consecutive mod 2^16 (argued in DESIGN §4)"),
 "C18": ("DESIGN.md §3 L",
         "dominator-based state-gate and success-branch rules on JitterBuffer.Pop*, reset-completeness rule on Clear methods",
         "Decides L1-L3: pops are refused before playback, a failed pop does not move the head, Clear really forgets buffered packets. Necessary conditions; list ordering for arbitrary push orders is a value property and is not decided.",
         "table of gated methods / root fields is frozen per type"),
 "C20": ("DESIGN.md §3 J",
         "abstract interpretation of Unwrap's SSA in the congruence domain ℤ/2^16 (affine forms over input and previous result) + inductive sign proof over integer linear forms with dominating-guard matching",
         "Proves, for all inputs and prior states, that Unwrap's result and stored state are congruent to the input modulo 2^16 (J1) and, by induction on the state, non-negative (J2). The ±2^15 proximity clause and all NTP clauses are not decided; claimed at level 'other' for that reason.",
         "integer conversions between ≥16-bit types preserve the residue class; the state field is only written by Unwrap"),
 "C09": ("DESIGN.md §3 G, F1, E2",
         "control-dependence rule on delta cursors (post-dominators + backward slice to history lookups), per-iteration path counting of position counters, index-guard rule",
         "Decides the clause the property singles out — the decoded arrival of a packet does not depend on whether neighbours are still in the history — plus once-per-symbol position advance and guarded delta indexing, for every function that walks a TWCC feedback. Arrival-time arithmetic and history contents are not decided.",
         "attribution-key fields and the delta element type are named in a table; lookup predicates are recognised by shape ((T,bool) result + comma-ok map lookup on a field)"),
 "C16": ("DESIGN.md §3 H",
         "store-provenance rule (clamp barrier with configured bounds), consumer-argument agreement rule, closed-gate rule over locksets and dominating facts",
         "Decides that every published bitrate is the output of a clamp with the configured bounds, that pacer/callback/getter see the same value, and that feeding feedback after Close cannot send on a closed pipe. The floating-point estimator stages are not analysed; the clamp absorbs them.",
         "clampInt(x, lo, hi) returns a value in [lo,hi] for lo ≤ hi (its three-line body is not re-verified); field tables frozen"),
 "C07": ("DESIGN.md §3 P1",
         "path counting of the accounting call and of the counter updates (exactly once per forwarded packet), value-shape rule on the increments, lockset/atomicity rows",
         "Decides the counter clause only: each forwarded packet increments packetCount by one and octetCount by len(payload) exactly once, under the stream mutex. The RTP/NTP timestamp clause is numerical and not decided.",
         "counter fields and the accounting function are named in a table"),
 "C14": ("DESIGN.md §3 M1, P2, B",
         "index-agreement rule on coverage-table accesses, path counting of the repair sequence number, injection-after-forward rule, retention taint",
         "Decides structural necessary clauses (mask names what was combined; repair SN advances once per packet; media first and unmodified; FEC computed from copies). XOR recoverability and bit layouts are algebra over byte values and are not decided.",
         "encoder function, table and counter fields named in a table"),
 "C17": ("DESIGN.md §3 Q",
         "queue-API agreement rule, per-iteration path counting of downstream writes, accept-implies-enqueued rule, charge-before-send dominance rule, retention taint and pooled-copy bounds",
         "Decides once/in-order/intact at the level of structure: FIFO API discipline, exactly one write per dequeued packet, success only after enqueue, every released packet charged to the limiter, queued copies. The numeric rate envelope is not decided.",
         "pacer types, queue fields and limiter field named in a table"),
 "C19": ("DESIGN.md §3 S",
         "dominating-condition rule (SSRC test) on every counter store, exhaustive-loop rule on compound walks, closure rules and lockset/atomicity rows of the stats package",
         "Decides that counters only move for traffic addressed to the recorder's SSRC, that every packet of a compound is visited, that each packet reaches the recorder exactly once and updates are atomic. The WebRTC-stats formulas are numerical and not decided.",
         "counter structs are the *StreamStats types of pkg/stats; guard polarity is not checked (any test against r.ssrc counts)"),
}

NA = {
 "C03": "value relation between emitted NACK sets and arrival histories (modular bitmap arithmetic); no structural necessary condition beyond those decided under C01/C10/C11 (DESIGN.md §4)",
 "C05": "wire validity of a greedy chunk packer and 250us/64ms quantisation is arithmetic over values; any structural proxy would be a frozen fragment (DESIGN.md §4)",
 "C06": "RFC 3550 loss/jitter recurrences are numerical functions of the whole history (DESIGN.md §4)",
 "C08": "range/cursor/budget arithmetic over unwrapped sequence numbers; nothing structural that C10-C12 do not already decide (DESIGN.md §4)",
}
PENDING = "check not built yet in this round (planned: see DESIGN.md §0); not claimed until its rules run"

props = [json.loads(l) for l in open('/verif/properties.jsonl')]
checks, na = [], []
for p in props:
    i = p["id"]
    if i in CLAIMED:
        ref, tech, text, note = CLAIMED[i]
        checks.append({
            "property_id": i,
            "quick_cmd": f"/verif/run.sh {i} quick",
            "thorough_cmd": f"/verif/run.sh {i} thorough",
            "evidence_file": f"/verif/evidence/{i}.json",
            "replay_cmd_template": "/verif/bin/ivcheck -replay {path}",
            "engine": "ivcheck",
            "level_claimed": {"category": "other", "text": text, "design_ref": ref},
            "level_note": note,
            "technique": "static analysis: " + tech,
        })
    else:
        na.append({"property_id": i, "reason": NA.get(i, PENDING)})

m = {
 "version": 1,
 "setup_cmd": "/verif/setup.sh",
 "hooks": {"guard": "verif",
           "enable": "none needed: the checks analyse /repo's source statically; no instrumentation, no source commits guarded by the tag",
           "baseline_off_cmd": "cd /repo && PATH=/opt/veriftools/go1.26.8/bin:$PATH GOFLAGS=-mod=mod GOPROXY=off GOTOOLCHAIN=local go test -vet=off -count=1 ./...",
           "source_commits": [], "add_only": True},
 "engines": [{"name": "ivcheck", "path": "/verif/checker", "serves_properties": sorted(CLAIMED),
              "kind_free_text": "custom static analyser over go/packages + go/ssa + call graph (x/tools v0.50.0); rule engines A..S, fixtures as must-fire controls"}],
 "checks": checks,
 "not_applicable": na,
 "notes": "Static analysis only. Genuine defects found are repaired by 'fix:' commits in /repo and recorded in /verif/known_findings.json.",
}
json.dump(m, open('/verif/MANIFEST.json', 'w'), indent=1)
print("claimed:", sorted(CLAIMED), "n/a:", [x["property_id"] for x in na])
